"""Universal online monitors (used by several properties' checks).

* ConstructionMonitor - fires once per completed (outermost) signal construction; feeds the class
  contract checker (C16) and the band-model label oracle (C02).
* GetitemMonitor      - postcondition of every __getitem__ (C01 time ledger, C02 label ledger).
* helper oracles shared with the per-property workloads.
"""

import copy
import threading
from fractions import Fraction as F

import numpy as np
import astropy.units as u
from astropy.time import Time
import dask.array as da
import pulsarbat as pb

from . import exact, probes

ALIGN = {"bottom": F(0), "center": F(1, 2), "top": F(1)}
SIGNAL_INIT_CLASSES = [pb.Signal, pb.RadioSignal, pb.BasebandSignal, pb.DualPolarizationSignal]
ALL_CLASSES = [pb.Signal, pb.RadioSignal, pb.IntensitySignal, pb.FullStokesSignal,
               pb.BasebandSignal, pb.DualPolarizationSignal]


# ------------------------------------------------------------------------------------------------
# metadata snapshots
# ------------------------------------------------------------------------------------------------
def meta_of(sig):
    """Public metadata of a signal as plain values (exact where numeric)."""
    m = {
        "cls": type(sig),
        "len": int(sig.shape[0]),
        "shape": tuple(int(s) for s in sig.shape),
        "dtype": sig.dtype,
        "rate": exact.hz(sig.sample_rate),
        "rate_q": sig.sample_rate,
        "start": sig.start_time,
        "meta": copy.deepcopy(sig.meta),
        "dask": isinstance(sig.data, da.Array),
    }
    if isinstance(sig, pb.RadioSignal):
        m["fc"] = exact.hz(sig.center_freq)
        m["bw"] = exact.hz(sig.chan_bw)
        m["align"] = sig.freq_align
        m["nchan"] = int(sig.shape[1])
        m["fmin"] = exact.hz(sig.min_freq)
        m["fmax"] = exact.hz(sig.max_freq)
    if isinstance(sig, pb.DualPolarizationSignal):
        m["pol"] = sig.pol_type
    return m


def model_labels(fc, bw, align, nchan):
    """Exact channel labels from the band model (Fractions)."""
    a = F(1, 2) if nchan % 2 else ALIGN[align]
    return [fc + bw * (i + a - F(nchan, 2)) for i in range(nchan)]


def label_tol(fc, bw, nchan):
    return 16 * F(1, 2 ** 53) * (abs(fc) + nchan * bw)


def same_time(a, b, tol):
    """Equal start times, up to the resolution of astropy's two-double Time (a start time that went through ``t + 0 s`` on a UTC day
    with a leap second comes back with another jd1/jd2 split, a few ps away)."""
    if a is None or b is None:
        return a is None and b is None
    return abs(exact.time_diff_s(a, b)) <= max(tol, exact.TIME_TOL_S)


# ------------------------------------------------------------------------------------------------
# C16: class contract
# ------------------------------------------------------------------------------------------------
def contract_problems(sig, at_creation=True):
    """List of (code, text) class-contract violations of a live signal (empty = fine)."""
    out = []
    cls = type(sig)
    req = cls._req_shape
    try:
        data = sig.data
        shape = tuple(data.shape)
        if len(shape) < len(req):
            out.append(("ndim", f"{cls.__name__} has ndim {len(shape)} < {len(req)}"))
        for i, r in enumerate(req):
            if r is not None and i < len(shape) and shape[i] != r:
                out.append(("fixed_axis", f"axis {i} has length {shape[i]}, class requires {r}"))
        if int(np.prod(shape[1:])) == 0:
            out.append(("empty_sample", f"sample shape {shape[1:]} has zero size"))
        if cls._req_dtype and data.dtype not in [np.dtype(d) for d in cls._req_dtype]:
            out.append(("dtype", f"dtype {data.dtype} not in {cls._req_dtype}"))
        if not isinstance(data, (np.ndarray, da.Array)):
            out.append(("container", f"data container is {type(data).__name__}"))

        def freq_ok(q, positive, name):
            if not isinstance(q, u.Quantity):
                out.append((name, f"{name} is {type(q).__name__}, not a Quantity"))
                return None
            try:
                v = q.to_value(u.Hz)
            except Exception:
                out.append((name, f"{name}={q!r} is not a frequency"))
                return None
            if np.ndim(v) != 0:
                out.append((name, f"{name} is not scalar"))
                return None
            if not np.isfinite(v) and positive:
                # NaN/inf: "positive" cannot hold
                if not (v > 0):
                    out.append((name, f"{name}={q!r} is not positive"))
            elif positive and not v > 0:
                out.append((name, f"{name}={q!r} is not positive"))
            return v

        sr = freq_ok(sig.sample_rate, True, "sample_rate")
        st = sig.start_time
        if st is not None and not (isinstance(st, Time) and st.isscalar):
            out.append(("start_time", f"start_time is {type(st).__name__} / not scalar"))
        if sig.meta is not None and not isinstance(sig.meta, dict):
            out.append(("meta", f"meta is {type(sig.meta).__name__}"))
        if isinstance(sig, pb.RadioSignal):
            cb = freq_ok(sig.chan_bw, True, "chan_bw")
            freq_ok(sig.center_freq, False, "center_freq")
            fa = sig.freq_align
            if fa not in ("bottom", "center", "top"):
                out.append(("freq_align", f"freq_align={fa!r}"))
            elif len(shape) > 1 and shape[1] % 2 and fa != "center":
                out.append(("freq_align_odd", f"odd nchan={shape[1]} but freq_align={fa!r}"))
            if isinstance(sig, pb.BasebandSignal) and at_creation and sr is not None and cb is not None:
                if F(float(sr)) != F(float(cb)):
                    out.append(("baseband_bw", f"baseband signal created with chan_bw={sig.chan_bw} != sample_rate={sig.sample_rate}"))
        if isinstance(sig, pb.DualPolarizationSignal):
            if sig.pol_type not in ("linear", "circular"):
                out.append(("pol_type", f"pol_type={sig.pol_type!r}"))
    except Exception as exc:  # attribute missing = half-built object
        out.append(("attribute", f"{type(exc).__name__}: {exc}"))
    return out


# ------------------------------------------------------------------------------------------------
# C02: band model on a live radio signal
# ------------------------------------------------------------------------------------------------
def band_model_problems(sig, max_chan=96):
    """Compare channel_freqs/min/max/bandwidth with the documented formula (exact)."""
    out = []
    fc, bw = exact.hz(sig.center_freq), exact.hz(sig.chan_bw)
    n = int(sig.shape[1])
    tol = label_tol(fc, bw, n)
    if tol > bw / 1000:
        return None  # unresolvable in float64: labels closer than rounding of fc
    align = sig.freq_align
    cf = sig.channel_freqs
    if cf.shape != (n,):
        return [("labels_shape", f"channel_freqs has shape {cf.shape}, nchan={n}")]
    vals = cf.to_value(u.Hz)
    idx = range(n) if n <= max_chan else sorted(set(list(range(8)) + list(range(n - 8, n)) + list(range(0, n, max(1, n // 32)))))
    a = F(1, 2) if n % 2 else ALIGN.get(align)
    if a is None:
        return [("align", f"freq_align={align!r}")]
    for i in idx:
        want = fc + bw * (i + a - F(n, 2))
        if abs(F(float(vals[i])) - want) > tol:
            out.append(("label", f"channel {i}: label {float(vals[i])!r} Hz, model {float(want)!r} Hz "
                                 f"(fc={float(fc)}, bw={float(bw)}, align={align}, nchan={n})"))
            break
    lo, hi = exact.hz(sig.min_freq), exact.hz(sig.max_freq)
    tol64 = tol
    narrow = [getattr(q.value, "dtype", np.dtype(float)) for q in (sig.min_freq, sig.max_freq, sig.bandwidth)]
    if any(d.kind == "f" and d.itemsize < 8 for d in narrow):
        # band edges returned as single-precision scalars (single-precision inputs) cannot be more exact than their own type
        tol = tol + F(1, 2 ** 21) * (abs(fc) + n * bw)
    if abs((hi - lo) - n * bw) > 2 * tol:
        out.append(("width", f"max_freq-min_freq={float(hi - lo)} != nchan*chan_bw={float(n * bw)}"))
    if abs(lo - (fc - n * bw / 2)) > tol or abs(hi - (fc + n * bw / 2)) > tol:
        out.append(("edges", f"min/max_freq {float(lo)},{float(hi)} not fc -/+ nchan*bw/2"))
    if abs(exact.hz(sig.bandwidth) - n * bw) > tol:
        out.append(("bandwidth", f"bandwidth {sig.bandwidth} != nchan*chan_bw"))
    vmin, vmax = F(float(vals.min())), F(float(vals.max()))
    if vmin < lo - tol or vmax > hi + tol:
        out.append(("outside", "a channel label lies outside [min_freq, max_freq]"))
    tol = tol64
    if n > 1:
        d = np.diff(vals)
        if abs(F(float(d.min())) - bw) > 2 * tol or abs(F(float(d.max())) - bw) > 2 * tol:
            out.append(("spacing", f"label spacing {d.min()}..{d.max()} != chan_bw {float(bw)}"))
    return out


# ------------------------------------------------------------------------------------------------
# Construction monitor
# ------------------------------------------------------------------------------------------------
class ConstructionMonitor:
    """Calls ``on_built(sig)`` / ``on_failed(cls, args, kwargs, exc)`` once per outermost constructor call."""

    def __init__(self, on_built=None, on_failed=None):
        self.on_built = on_built
        self.on_failed = on_failed
        self.tls = threading.local()

    def install(self):
        for cls in SIGNAL_INIT_CLASSES:
            probes.attach(cls, "__init__", self, label=f"{cls.__name__}.__init__")
        return self

    def pre(self, point, args, kwargs):
        d = getattr(self.tls, "depth", None)
        if d is None:
            d = self.tls.depth = {}
        k = id(args[0])
        d[k] = d.get(k, 0) + 1
        return k

    def post(self, point, args, kwargs, k, result, exc):
        d = self.tls.depth
        d[k] -= 1
        if d[k] > 0:
            return
        del d[k]
        if exc is None:
            if self.on_built:
                self.on_built(args[0])
        elif self.on_failed:
            self.on_failed(type(args[0]), args, kwargs, exc)


# ------------------------------------------------------------------------------------------------
# __getitem__ monitor  (C01 + C02 ledgers)
# ------------------------------------------------------------------------------------------------
class GetitemMonitor:
    """Postcondition of every time / frequency / Stokes selection."""

    def __init__(self, ctx, check_time=True, check_freq=True, oracle_prefix=""):
        self.ctx = ctx
        self.check_time = check_time
        self.check_freq = check_freq
        self.p = oracle_prefix

    def install(self):
        probes.attach(pb.Signal, "__getitem__", self, label="Signal.__getitem__")
        probes.attach(pb.RadioSignal, "__getitem__", self, label="RadioSignal.__getitem__")
        probes.attach(pb.FullStokesSignal, "__getitem__", self, label="FullStokesSignal.__getitem__")
        return self

    def pre(self, point, args, kwargs):
        sig = args[0]
        return meta_of(sig)

    def post(self, point, args, kwargs, m, out, exc):
        ctx = self.ctx
        if exc is not None or m is None:
            return
        sig, index = args[0], args[1]
        if point.label == "FullStokesSignal.__getitem__" and not isinstance(index, str):
            return  # delegated to RadioSignal.__getitem__, judged there
        if isinstance(index, str):
            self._stokes(sig, m, index, out)
            return
        if not isinstance(index, tuple):
            index = (index,)
        ts = index[0]
        if not isinstance(ts, slice):
            return
        b, e, s = ts.indices(m["len"])
        kept = len(range(b, e, s))
        ctx.count("getitem_events")
        if self.check_time:
            self._time(m, out, b, s, kept, index)
        if self.check_freq and isinstance(sig, pb.RadioSignal):
            self._freq(m, out, index)

    # -- C01 ------------------------------------------------------------------
    def _time(self, m, out, b, s, kept, index):
        ctx = self.ctx
        o = "getitem_time"
        feats = {"cls": m["cls"].__name__, "step": "1" if s == 1 else ">1"}
        ctx.count("oracle[getitem_time]")
        if len(out) != kept:
            ctx.violation(o, f"len(out)={len(out)} but slice keeps {kept} samples", {"index": index, "len": m["len"]}, feats)
            return
        orate = exact.hz(out.sample_rate)
        want_rate = m["rate"] / s
        if abs(orate - want_rate) > exact.REL * want_rate:
            ctx.violation(o, f"sample_rate {out.sample_rate} != input rate {m['rate_q']} / step {s}",
                          {"index": index}, dict(feats, what="rate"))
        st = out.start_time
        if m["start"] is None:
            if st is not None:
                ctx.violation(o, "signal without start time acquired one", {"index": index}, dict(feats, what="acquired"))
            if out.stop_time is not None:
                ctx.violation(o, "stop_time not None although start_time is None", None, dict(feats, what="stop_none"))
            return
        if st is None:
            ctx.violation(o, "start time lost by slicing", {"index": index}, dict(feats, what="lost"))
            return
        offs = F(b) / m["rate"]
        got = exact.time_diff_s(st, m["start"])
        tol = exact.time_tol(offs)
        if kept > 0:
            if abs(got - offs) > tol:
                ctx.violation(o, f"start_time advanced by {float(got)!r} s, expected {b}/{float(m['rate'])} = {float(offs)!r} s "
                                 f"(err {float(got - offs):.3e} s = {float((got - offs) * m['rate']):.3e} samples)",
                              {"index": index, "len": m["len"], "start_in": str(m["start"].isot)}, dict(feats, what="start"))
        check_span(ctx, o, out, feats)
        if kept > 0:
            ctx.count("nontrivial[getitem_time]")

    # -- C02 ------------------------------------------------------------------
    def _freq(self, m, out, index):
        ctx = self.ctx
        o = "getitem_freq"
        n = m["nchan"]
        if len(index) > 1:
            if not isinstance(index[1], slice):
                return
            a, b, st = index[1].indices(n)
        else:
            a, b, st = 0, n, 1
        if st != 1 or b <= a:
            # selections the band model cannot describe (a stride, nothing selected): the library refuses them; if one comes back
            # it must at least carry the labels of the channels it holds
            sel = list(range(a, b, st))
            tol = label_tol(m["fc"], m["bw"], n)
            if isinstance(out, pb.RadioSignal) and tol <= m["bw"] / 1000:
                ctx.count("oracle[getitem_freq_unsupported]")
                want = [model_labels(m["fc"], m["bw"], m["align"], n)[i] for i in sel]
                try:
                    vals = [F(float(v)) for v in out.channel_freqs.to_value(u.Hz)]
                except Exception:
                    vals = None
                if vals is None or len(vals) != len(want) or any(abs(v - w) > tol for v, w in zip(vals, want)):
                    ctx.violation(o, f"frequency selection {index[1]} (channels {sel[:6]}) returned a {type(out).__name__} whose labels "
                                     f"{None if vals is None else [float(v) for v in vals[:4]]} are not those of the selected channels "
                                     f"{[float(w) for w in want[:4]]}", {"index": index},
                                  {"cls": m["cls"].__name__, "what": "unsupported_selection_mislabelled", "stride": st, "empty": not sel})
            return
        feats = {"cls": m["cls"].__name__, "baseband": issubclass(m["cls"], pb.BasebandSignal),
                 "freq_sliced": len(index) > 1, "trailing_index": len(index) > 2}
        tol = label_tol(m["fc"], m["bw"], n)
        if tol > m["bw"] / 1000:
            ctx.count("unresolvable[getitem_freq]")
            return
        ts = index[0].indices(m["len"])
        feats["time_step"] = "1" if ts[2] == 1 else ">1"
        ctx.count("oracle[getitem_freq]")
        want = model_labels(m["fc"], m["bw"], m["align"], n)[a:b]
        cf = out.channel_freqs
        if cf.shape != (b - a,):
            ctx.violation(o, f"{b - a} channels selected but result has {cf.shape} labels", {"index": index}, feats)
            return
        vals = cf.to_value(u.Hz)
        for i, w in enumerate(want):
            if abs(F(float(vals[i])) - w) > tol:
                err = F(float(vals[i])) - w
                # does the observed labelling match "chan_bw re-derived from the decimated sample rate"?
                nb = b - a
                if len(index) > 1:
                    c2, a2 = (want[0] + want[-1]) / 2, F(1, 2)
                else:
                    c2, a2 = m["fc"], (F(1, 2) if n % 2 else ALIGN[m["align"]])
                pred = [c2 + (m["bw"] / ts[2]) * (j + a2 - F(nb, 2)) for j in range(nb)]
                feats["rescale_mechanism"] = bool(ts[2] > 1 and all(
                    abs(F(float(vals[j])) - pred[j]) <= tol for j in range(nb)))
                ctx.violation(o, f"channel {a + i} of the input is labelled {float(w)!r} Hz, selected channel {i} is labelled "
                                 f"{float(vals[i])!r} Hz (err {float(err):.6g} Hz = {float(err / m['bw']):.4g} channels)",
                              {"index": index, "fc": float(m["fc"]), "bw": float(m["bw"]), "align": m["align"], "nchan": n},
                              dict(feats, what="label", multi=(b - a) > 1))
                break
        obw = exact.hz(out.chan_bw)
        want_bw = m["bw"] / ts[2] if feats["baseband"] else m["bw"]
        if not feats["baseband"] and abs(obw - m["bw"]) > exact.REL * m["bw"]:
            ctx.violation(o, f"chan_bw changed from {float(m['bw'])} to {float(obw)} by slicing", {"index": index},
                          dict(feats, what="chan_bw"))
        ctx.count("nontrivial[getitem_freq]")

    def _stokes(self, sig, m, key, out):
        ctx = self.ctx
        o = "stokes_select"
        ctx.count("oracle[stokes_select]")
        feats = {"key": key}
        if type(out) is not pb.IntensitySignal:
            ctx.violation(o, f"sig[{key!r}] is a {type(out).__name__}", None, feats)
            return
        mo = meta_of(out)
        if mo["rate"] != m["rate"] or not same_time(mo["start"], m["start"], 0) or mo["len"] != m["len"]:
            ctx.violation(o, f"sig[{key!r}] changed time metadata", None, dict(feats, what="time"))
        if mo["nchan"] != m["nchan"] or mo["bw"] != m["bw"]:
            ctx.violation(o, f"sig[{key!r}] changed nchan/chan_bw", None, dict(feats, what="freq"))
        else:
            tol = label_tol(m["fc"], m["bw"], m["nchan"])
            la, lb = model_labels(m["fc"], m["bw"], m["align"], m["nchan"]), model_labels(mo["fc"], mo["bw"], mo["align"], mo["nchan"])
            if tol <= m["bw"] / 1000 and any(abs(x - y) > tol for x, y in zip(la, lb)):
                ctx.violation(o, f"sig[{key!r}] changed the channel labels: {float(la[0])!r}.. -> {float(lb[0])!r}.. "
                                 f"(align {m['align']} -> {mo['align']})", None, dict(feats, what="freq"))
            with probes.quiet():
                bp = band_model_problems(out)
            for code, text in (bp or []):
                ctx.violation(o, f"sig[{key!r}]: {text}", None, dict(feats, what="band_" + code))
        if not m["dask"] and sig.shape[0] * int(np.prod(sig.shape[1:])) <= 1 << 16:
            k = "IQUV".index(key)
            want = np.asarray(sig.data)[:, :, k]
            got = np.asarray(out.data)
            if want.shape != got.shape or not np.array_equal(want, got, equal_nan=True):
                ctx.violation(o, f"sig[{key!r}] data is not component {k} of the input", None, dict(feats, what="data"))


def check_span(ctx, oracle, sig, feats=None):
    """stop_time = start_time + len/rate ; time_length, dt consistent (C01)."""
    st = sig.start_time
    rate = exact.hz(sig.sample_rate)
    n = len(sig)
    feats = dict(feats or {})
    tl = exact.seconds(sig.time_length)
    want = F(n) / rate
    if abs(tl - want) > 4 * exact.REL * want:
        ctx.violation(oracle, f"time_length {sig.time_length} != len/rate = {float(want)} s", None, dict(feats, what="time_length"))
    dt = exact.seconds(sig.dt)
    if abs(dt - 1 / rate) > 4 * exact.REL / rate:
        ctx.violation(oracle, f"dt {sig.dt} != 1/sample_rate", None, dict(feats, what="dt"))
    if st is None:
        if sig.stop_time is not None:
            ctx.violation(oracle, "stop_time without start_time", None, dict(feats, what="stop_none"))
        return
    sp = sig.stop_time
    if sp is None:
        ctx.violation(oracle, "stop_time is None although start_time is set", None, dict(feats, what="stop_missing"))
        return
    got = exact.time_diff_s(sp, st)
    if abs(got - want) > exact.time_tol(want):
        ctx.violation(oracle, f"stop_time - start_time = {float(got)!r} s, expected len/rate = {float(want)!r} s "
                              f"(err {float((got - want) * rate):.3e} samples)", {"len": n}, dict(feats, what="stop"))


def joint_compute_check(ctx, oracle, outs, feats, what="results"):
    """Lazy results that are each right when computed alone must also be right when evaluated in one Dask graph
    (dask.compute(a, b), a * conj(b), concatenate...): graph keys of different results must not collide.

    ``outs``: Dask-backed signals or Dask arrays.  The values each one gives alone (what the per-call monitors judge) are the reference."""
    import dask
    from . import probes
    arrs = [getattr(s, "data", s) for s in outs]
    arrs = [a for a in arrs if isinstance(a, da.Array)]
    if len(arrs) < 2:
        return
    with probes.quiet():
        alone = [np.asarray(a.compute(scheduler="synchronous")) for a in arrs]
        together = dask.compute(*arrs, scheduler="synchronous")
    ctx.count(f"oracle[{oracle}_joint]")
    for i, (a, b) in enumerate(zip(alone, together)):
        b = np.asarray(b)
        if a.shape != b.shape:
            ctx.violation(oracle, f"{what}: result {i} has shape {a.shape} computed alone and {b.shape} computed in one graph with the others",
                          None, dict(feats, what="joint_graph"))
            return
        if a.size == 0:
            continue
        fin = np.isfinite(a)
        scale = float(np.sqrt(np.sum(np.abs(a[fin]).astype(np.float64) ** 2))) if fin.any() else 0.0
        err = float(np.sqrt(np.sum(np.abs((a - b)[fin]).astype(np.float64) ** 2))) if fin.any() else 0.0
        eps = 1e-5 if a.dtype.itemsize // (2 if a.dtype.kind == "c" else 1) <= 4 else 1e-12
        if err > eps * scale + 1e-300 or not np.array_equal(np.isfinite(a), np.isfinite(b)):
            ctx.violation(oracle, f"{what}: result {i} of {len(arrs)} differs when the lazy results are evaluated together in one Dask graph "
                                  f"(l2 difference {err:.3e} = {err / (scale + 1e-300):.3e} of its norm); each is right when computed alone",
                          None, dict(feats, what="joint_graph"))
            return
