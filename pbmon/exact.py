"""Exact rational views of the values pulsarbat exposes (oracle arithmetic, independent of astropy's)."""

from fractions import Fraction as F
import math

import numpy as np
import astropy.units as u
from astropy.time import Time

PS = F(1, 10 ** 12)
TIME_TOL_S = 60 * PS            # two-double Time resolution incl. UTC<->TAI round trips (see DESIGN 1.2)
REL = F(1, 2 ** 51)


def fr(x):
    """Fraction of a python/numpy real scalar (exact binary value)."""
    if isinstance(x, F):
        return x
    if isinstance(x, (int, np.integer)):
        return F(int(x))
    return F(float(x))


def time_days_tai(t):
    """Exact value of the (jd1, jd2) pair of a scalar Time, in TAI days."""
    tt = t if t.scale == "tai" else t.tai
    return F(float(tt.jd1)) + F(float(tt.jd2))


def time_diff_s(a, b):
    """a - b in seconds (exact rational of the two-double representations, TAI)."""
    return (time_days_tai(a) - time_days_tai(b)) * 86400


def hz(q):
    """Exact value of a scalar frequency Quantity in Hz (after astropy's unit scaling).

    A Quantity holding a narrower float (float32/float16 header fields) denotes exactly that binary value times its unit; astropy
    would do the unit scaling in the narrow type, so it is done here in rationals (decimal unit scale)."""
    dt = getattr(getattr(q, "value", None), "dtype", None)
    if dt is not None and dt.kind == "f" and dt.itemsize < 8:
        return F(float(q.value)) * F(repr(float(q.unit.to(u.Hz))))
    return F(float(q.to_value(u.Hz)))


def hz_array(q):
    return [F(float(v)) for v in np.atleast_1d(q.to_value(u.Hz)).ravel()]


def seconds(q):
    return F(float(q.to_value(u.s)))


def time_tol(offset_s, ops=1):
    """Allowed |error| (s) of a start time that was advanced by ``offset_s`` in ``ops`` operations."""
    return ops * TIME_TOL_S + REL * abs(F(offset_s))


def phase_fraction(p):
    """Exact value(s) of a Phase as Fractions (list, C order) plus the imaginary flag."""
    v = np.asarray(p.view(np.ndarray))
    ints = np.atleast_1d(v["int"]).ravel()
    fracs = np.atleast_1d(v["frac"]).ravel()
    return [F(float(a)) + F(float(b)) for a, b in zip(ints, fracs)], bool(getattr(p, "imaginary", False))


def ceil_frac(x):
    return math.ceil(x)


def floor_frac(x):
    return math.floor(x)


def near_integer(x, eps=F(1, 10 ** 9)):
    """True if Fraction x is within eps of an integer."""
    r = x - round(x)
    return abs(r) <= eps


def f2float(x):
    return float(x)
