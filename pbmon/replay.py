"""Workload R driver: replays /repo's own test-suite under the property's monitors (see pytest_plugin.py)."""

import json
import os
import subprocess
import sys

from .core import REPO, VERIF_DIR


def wl_R(ctx, idx, rng):
    out = os.path.join(ctx.scratch, "R-state.json")
    env = dict(os.environ, PBMON_R_PROP=ctx.prop, PBMON_R_OUT=out, VERIF_SEED=str(ctx.seed),
               PYTHONPATH=f"{VERIF_DIR}{os.pathsep}{REPO}", PYTHONHASHSEED="0", PYTHONDONTWRITEBYTECODE="1")
    cmd = [sys.executable, "-W", "ignore", "-m", "pytest", os.path.join(REPO, "tests"), "-q", "-p", "pbmon.pytest_plugin",
           "-p", "no:cacheprovider", "--timeout=600", "-o", "addopts="]
    ctx.describe_case({"workload": "R", "cmd": " ".join(cmd[3:])})
    try:
        p = subprocess.run(cmd, cwd=REPO, env=env, stdout=subprocess.PIPE, stderr=subprocess.STDOUT, timeout=900)
    except subprocess.TimeoutExpired:
        ctx.inconclusive_because("workload R (test-suite replay) hit its wall-clock watchdog")
        return
    if not os.path.exists(out):
        ctx.inconclusive_because("workload R produced no monitor state: " + p.stdout.decode(errors="replace")[-400:])
        return
    with open(out) as fh:
        st = json.load(fh)
    n_tests = st.pop("evaluations", 0)
    st["evaluations"] = 0
    st["samples"] = []
    ctx.merge(st)
    ctx.count("R_replayed_tests", 0)
    ctx.note("R_tests_replayed", n_tests)
    ctx.bucket("R", "test-suite")
    if n_tests < 150:
        ctx.inconclusive_because(f"workload R replayed only {n_tests} tests")
