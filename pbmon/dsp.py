"""Reference signal-processing models (independent of pulsarbat.fft / scipy.fft)."""

import math
from fractions import Fraction as F

import numpy as np

from . import refdft

LD = np.longdouble
_PI = refdft._PI_LD


def eps_of(dtype):
    dtype = np.dtype(dtype)
    return 2.0 ** -23 if dtype in (np.dtype(np.float32), np.dtype(np.complex64)) else 2.0 ** -52


def broadcast_left(shift, sample_shape):
    """pulsarbat's documented rule: shift axis j matches sample axis j; missing trailing axes broadcast."""
    s = np.asarray(shift, dtype=np.float64)
    if s.ndim == 0:
        return np.broadcast_to(s, sample_shape)
    s = s.reshape(s.shape + (1,) * (len(sample_shape) - s.ndim))
    return np.broadcast_to(s, sample_shape)


def ref_time_shift(x, s_b):
    """DFT shift-theorem delay of x (N, *sample) by s_b (sample_shape) samples, no zero fill. complex128/float64."""
    x = np.asarray(x)
    N = x.shape[0]
    E = int(np.prod(x.shape[1:])) if x.ndim > 1 else 1
    x2 = x.reshape(N, E)
    s = np.asarray(s_b, dtype=np.float64).reshape(E)
    k = refdft.fftfreq_bins(N)
    X = refdft.dft(x2, axis=0)
    if N <= refdft.MATRIX_MAX:
        ph = (-2 * _PI) * (k[:, None].astype(LD) * s[None, :].astype(LD)) / LD(N)
        ramp = (np.cos(ph) + 1j * np.sin(ph)).astype(np.complex128)
    else:
        ph = (-2 * np.pi) * (k[:, None].astype(np.float64) * s[None, :]) / N
        ramp = np.exp(1j * ph)
    y = refdft.dft(X * ramp, axis=0, inverse=True)
    if not np.iscomplexobj(x):
        y = y.real
    return y.reshape(x.shape)


def zero_regions(s_b, N):
    """Boolean mask (N, *sample) of samples whose source lies outside the input."""
    s = np.asarray(s_b, dtype=np.float64)
    n = np.arange(N).reshape((N,) + (1,) * s.ndim)
    pos = np.where(s > 0, np.ceil(s), 0)
    neg = np.where(s < 0, np.ceil(-s), 0)
    return (n < pos[None]) | (n >= N - neg[None])


def ref_freq_shift(x, a_b):
    """Spectrum of x (N, *sample) moved by a_b bins (sample_shape, float), wrapped content zeroed. complex128.

    Returns (y, zero_mask_in_fftshifted_order, boundary_ambiguous_mask)."""
    x = np.asarray(x)
    N = x.shape[0]
    E = int(np.prod(x.shape[1:]))
    x2 = x.reshape(N, E).astype(np.complex128)
    a = np.asarray(a_b, dtype=np.float64).reshape(E)
    n = np.arange(N, dtype=np.float64)
    # exp(2 pi i a n / N): reduce a*n/N modulo 1 in longdouble for accuracy
    t = (a[None, :].astype(LD) * n[:, None].astype(LD)) / LD(N)
    t = t - np.floor(t)
    ph = (np.cos(2 * _PI * t) + 1j * np.sin(2 * _PI * t)).astype(np.complex128)
    Y = np.fft.fftshift(refdft.dft(x2 * ph, axis=0), axes=0)
    idx = np.arange(N)[:, None]
    pos = np.where(a > 0, np.ceil(a), 0)[None, :]
    neg = np.where(a < 0, np.floor(a), 0)[None, :]
    zero = (idx < pos) | (idx >= N + neg)
    Y = np.where(zero, 0, Y)
    y = refdft.dft(np.fft.ifftshift(Y, axes=0), axis=0, inverse=True)
    return y.reshape(x.shape), zero.reshape(x.shape)
