"""Reference models shared by several properties (exact dispersion law, crop ledgers, ...)."""

import math
from fractions import Fraction as F

import numpy as np
import astropy.units as u
from astropy.time import Time
import pulsarbat as pb

from . import exact

# dispersion constant  K = 1 / 2.41e-4  s MHz^2 cm^3 / pc   (exact rational; in Hz^2: * 1e12)
K_MHZ = F(10 ** 7, 2410)           # = 1/2.41e-4
K_HZ = K_MHZ * 10 ** 12


def dm_value(dm):
    """DM in pc/cm^3 as a Fraction."""
    return F(float(dm.to_value(u.pc / u.cm ** 3)))


def delay_s(dm, f_hz, ref_hz):
    """Exact dispersion delay (s) of frequency f relative to ref (Fractions; Hz). ref may be math.inf."""
    a = 1 / (f_hz * f_hz)
    b = F(0) if ref_hz is None else 1 / (ref_hz * ref_hz)
    return K_HZ * dm * (a - b)


def delay_err_bound(dm, f_hz, ref_hz, rate=F(1)):
    """Bound on the float64 evaluation error of K*DM*(f^-2 - ref^-2) [* rate]."""
    b = F(0) if ref_hz is None else 1 / (ref_hz * ref_hz)
    return 16 * F(1, 2 ** 53) * K_HZ * abs(dm) * (1 / (f_hz * f_hz) + b) * rate


def chirp_phase_cycles(dm, f_hz, ref_hz):
    """Exact chirp phase (cycles): K DM f (1/ref - 1/f)^2."""
    d = 1 / ref_hz - 1 / f_hz
    return K_HZ * dm * f_hz * d * d


def coherent_crop(dm, fmax, fmin, ref, rate, N, zero_exact=False):
    """(start, stop, ambiguous) of coherent dedispersion per the specification.

    A band-edge delay within the float64 evaluation bound of a whole sample (including 0, unless the
    reference frequency is the identical Quantity as that band edge: ``zero_exact``) makes the ceil
    ambiguous."""
    dt_ = delay_s(dm, fmax, ref) * rate
    db_ = delay_s(dm, fmin, ref) * rate
    eps = max(delay_err_bound(dm, fmax, ref, rate), delay_err_bound(dm, fmin, ref, rate)) + F(1, 10 ** 9)
    amb = False
    for d in (dt_, db_):
        if abs(d - round(d)) <= eps and not (d == 0 and zero_exact):
            amb = True
    start = math.ceil(-min(0, dt_, db_))
    stop = N - math.ceil(max(0, dt_, db_))
    return start, stop, amb, (dt_, db_)


def shift_crop(shifts, N):
    """(start, stop_neg) of a cropped time shift for a list of Fraction shifts (samples)."""
    start, stop = 0, 0
    for a in shifts:
        if a < 0:
            stop = min(stop, math.floor(a))
        else:
            start = max(start, math.ceil(a))
    return start, stop


def seven_smooth_upto(limit):
    out = []
    p7 = 1
    while p7 <= limit:
        p5 = p7
        while p5 <= limit:
            p3 = p5
            while p3 <= limit:
                p2 = p3
                while p2 <= limit:
                    out.append(p2)
                    p2 *= 2
                p3 *= 3
            p5 *= 5
        p7 *= 7
    out.sort()
    return out


_SMOOTH = None


def smooth_table():
    global _SMOOTH
    if _SMOOTH is None:
        _SMOOTH = seven_smooth_upto(2 ** 64)
    return _SMOOTH


def prev_smooth(n):
    import bisect
    if n <= 0:
        return n
    t = smooth_table()
    i = bisect.bisect_right(t, n)
    return t[i - 1]


def next_smooth(n):
    import bisect
    if n <= 0:
        return n
    t = smooth_table()
    i = bisect.bisect_left(t, n)
    return t[i]


def kept_range(start, stop_abs, N):
    """Samples [b, e) kept when the first ``start`` and everything from ``stop_abs`` on are invalid (specification, not Python's
    slice arithmetic: a negative ``stop_abs`` means *nothing* is valid, it does not count from the end)."""
    b = min(max(start, 0), N)
    e = max(b, min(N, max(stop_abs, 0)))
    return b, e
