"""Run context: counters, three-valued verdict, known findings, evidence, replay files.

A *check* is one property's set of workloads driven under its monitors.  Monitors never
raise into the program under observation; they call ``ctx.violation(...)``.
"""

import json
import os
import sys
import time
import traceback
import hashlib
import collections

import numpy as np

VERIF_DIR = os.path.dirname(os.path.dirname(os.path.abspath(__file__)))
REPO = os.environ.get("VERIF_REPO", "/repo")

EXIT_HELD, EXIT_VIOLATED, EXIT_INCONCLUSIVE = 0, 1, 2


class HarnessError(Exception):
    """A bug in the harness itself (never a verdict on pulsarbat)."""


class ValidInputRefused(Exception):
    """Raised by a generator when pulsarbat refuses (raises on) an input every property's domain contains, e.g. while a
    workload builds its operands.  The runner reports it as a violation of the property under check, not as a harness error."""

    def __init__(self, oracle, what, features=None):
        super().__init__(what)
        self.oracle, self.what, self.features = oracle, what, dict(features or {})


def jsonable(x, depth=0):
    """Best-effort conversion of witnesses / descriptors to JSON."""
    import fractions

    if depth > 6:
        return repr(x)[:200]
    if x is None or isinstance(x, (bool, int, str)):
        return x
    if isinstance(x, float):
        return x if np.isfinite(x) else repr(x)
    if isinstance(x, fractions.Fraction):
        return f"{x.numerator}/{x.denominator}" if abs(x.denominator) < 10 ** 30 else float(x)
    if isinstance(x, (np.integer,)):
        return int(x)
    if isinstance(x, (np.floating,)):
        return jsonable(float(x))
    if isinstance(x, (np.bool_,)):
        return bool(x)
    if isinstance(x, complex) or isinstance(x, np.complexfloating):
        return [jsonable(float(x.real)), jsonable(float(x.imag))]
    if isinstance(x, dict):
        return {str(k): jsonable(v, depth + 1) for k, v in list(x.items())[:60]}
    if isinstance(x, (list, tuple, set, frozenset)):
        return [jsonable(v, depth + 1) for v in list(x)[:60]]
    if isinstance(x, np.ndarray):
        if x.size <= 24:
            return {"ndarray": jsonable(x.tolist(), depth + 1), "dtype": str(x.dtype)}
        return {"ndarray_shape": list(x.shape), "dtype": str(x.dtype),
                "head": jsonable(x.ravel()[:8].tolist(), depth + 1)}
    if isinstance(x, slice):
        return f"slice({x.start},{x.stop},{x.step})"
    if isinstance(x, type):
        return x.__name__
    return repr(x)[:300]


class KnownFindings:
    """Read-only list of recorded defects, matched by mechanism features."""

    def __init__(self, path=None):
        path = path or os.path.join(VERIF_DIR, "known_findings.json")
        self.entries = []
        self.fixed = []
        if os.path.exists(path):
            with open(path) as fh:
                doc = json.load(fh)
            self.entries = doc.get("findings", [])
            self.fixed = doc.get("fixed", [])

    def match(self, prop, oracle, features):
        for e in self.entries:
            if e["property"] != prop:
                continue
            if e.get("oracle") not in (None, oracle):
                continue
            want = e.get("features", {})
            if all(features.get(k) == v for k, v in want.items()):
                return e
        return None


class Ctx:
    """Everything a workload / monitor needs during one run of one property."""

    def __init__(self, prop, tier="quick", seed=0, shard=(0, 1), replay=None, budget_s=None):
        self.prop = prop
        self.tier = tier
        self.seed = int(seed)
        self.shard_index, self.shard_count = shard
        self.replay = replay  # dict loaded from a replay file, or None
        self.t0 = time.time()
        self.budget_s = budget_s
        self.counters = collections.Counter()
        self.buckets = set()
        self.evaluations = 0
        self.samples = []
        self.violations = []      # dicts
        self.known_hits = collections.OrderedDict()   # key -> [count, what]
        self.inconclusive = []    # reasons
        self.notes = {}
        self.assumptions = []
        self.rule = ""
        self.known = KnownFindings()
        self._case = None         # (workload, idx, descriptor)
        self._case_desc = None
        self.max_violation_records = 25
        self.exhaustive = False
        self.out_of_time = False

    # ----------------------------------------------------------------- randomness
    @property
    def prop_num(self):
        return int(self.prop[1:])

    def rng(self, workload, idx):
        h = int(hashlib.sha256(workload.encode()).hexdigest()[:8], 16)
        return np.random.Generator(np.random.PCG64([self.seed, self.prop_num, h, int(idx)]))

    # ----------------------------------------------------------------- bookkeeping
    def count(self, name, n=1):
        self.counters[name] += n

    def bucket(self, *key):
        """Record one distinct non-trivial case class (hashable key)."""
        self.buckets.add(tuple(str(k) for k in key))

    def sample(self, desc, limit=6):
        if len(self.samples) < limit:
            self.samples.append(jsonable(desc))

    def stat_max(self, name, value):
        """Track the maximum of a margin statistic (e.g. error/tolerance) for the evidence file."""
        k = "max:" + name
        v = float(value)
        if v == v and v > self.notes.get(k, float("-inf")):
            self.notes[k] = v

    def note(self, key, value):
        self.notes[key] = jsonable(value)

    def set_case(self, workload, idx, desc=None):
        self._case = (workload, int(idx))
        self._case_desc = desc

    def describe_case(self, desc):
        self._case_desc = desc

    def timed_out(self):
        if self.budget_s is not None and time.time() - self.t0 > self.budget_s:
            self.out_of_time = True
            return True
        return False

    # ----------------------------------------------------------------- verdicts
    def violation(self, oracle, what, witness=None, features=None):
        """Record a violation of this property observed by ``oracle``."""
        features = dict(features or {})
        self.count(f"violations_seen[{oracle}]")
        e = self.known.match(self.prop, oracle, features)
        if e is not None:
            k = e["key"]
            if k not in self.known_hits:
                self.known_hits[k] = [0, e["what"]]
            self.known_hits[k][0] += 1
            return
        if len(self.violations) >= self.max_violation_records:
            self.count("violations_not_recorded")
            return
        rec = {
            "property": self.prop,
            "oracle": oracle,
            "what": str(what)[:2000],
            "features": jsonable(features),
            "witness": jsonable(witness),
            "workload": self._case[0] if self._case else None,
            "case_idx": self._case[1] if self._case else None,
            "case": jsonable(self._case_desc),
            "seed": self.seed,
            "tier": self.tier,
        }
        self.violations.append(rec)

    def unexpected_exception(self, oracle, exc, where, features=None):
        tb = "".join(traceback.format_exception(type(exc), exc, exc.__traceback__))[-3000:]
        f = {"exception": type(exc).__name__}
        f.update(features or {})
        self.violation(oracle, f"unexpected {type(exc).__name__} in {where}: {exc}",
                       witness={"traceback": tb}, features=f)

    def inconclusive_because(self, reason):
        if reason not in self.inconclusive:
            self.inconclusive.append(reason)

    def require(self, counter, minimum, what=None):
        """The deciding monitor must have been evaluated at least ``minimum`` times."""
        if self.replay is not None:
            return
        got = self.counters.get(counter, 0)
        # sharded workers only see part of the work; the parent re-checks on merged counters
        if self.shard_count > 1:
            self.notes.setdefault("requirements", []).append([counter, minimum, what])
            return
        if got < minimum:
            self.inconclusive_because(
                f"{what or counter}: deciding monitor ran {got} times, needs >= {minimum}")

    # ----------------------------------------------------------------- guarded library call
    def call(self, oracle, fn, *args, expect=None, where=None, features=None, **kwargs):
        """Call library code.  Returns (result, exception).

        ``expect``: None -> any exception is a violation (valid input);
        an exception class/tuple -> that exception must be raised (violation otherwise);
        "any" -> caller decides.
        """
        where = where or getattr(fn, "__name__", repr(fn))
        try:
            res = fn(*args, **kwargs)
        except BaseException as exc:  # noqa
            if isinstance(exc, (KeyboardInterrupt, SystemExit, HarnessError)):
                raise
            if expect is None:
                self.unexpected_exception(oracle, exc, where, features)
            elif expect != "any" and not isinstance(exc, expect):
                self.unexpected_exception(oracle, exc, where + " (wrong exception type)", features)
            return None, exc
        if expect is not None and expect != "any":
            names = getattr(expect, "__name__", str(expect))
            self.violation(oracle, f"{where} should have raised {names} but returned {type(res).__name__}",
                           witness={"result": repr(res)[:300]},
                           features=dict(features or {}, missing_exception=names))
        return res, None

    # ----------------------------------------------------------------- serialisation
    def state(self):
        return {
            "counters": dict(self.counters),
            "buckets": sorted(self.buckets),
            "evaluations": self.evaluations,
            "samples": self.samples,
            "violations": self.violations,
            "known_hits": {k: v for k, v in self.known_hits.items()},
            "inconclusive": self.inconclusive,
            "notes": self.notes,
            "out_of_time": self.out_of_time,
        }

    def merge(self, st):
        self.counters.update(st["counters"])
        self.buckets.update(tuple(b) for b in st["buckets"])
        self.evaluations += st["evaluations"]
        for s in st["samples"]:
            if len(self.samples) < 8:
                self.samples.append(s)
        for v in st["violations"]:
            if len(self.violations) < self.max_violation_records:
                self.violations.append(v)
        for k, (n, what) in st["known_hits"].items():
            if k not in self.known_hits:
                self.known_hits[k] = [0, what]
            self.known_hits[k][0] += n
        for r in st["inconclusive"]:
            self.inconclusive_because(r)
        for k, v in st["notes"].items():
            if k == "requirements":
                cur = self.notes.setdefault("requirements", [])
                for r in v:
                    if r not in cur:
                        cur.append(r)
            elif k.startswith("max:") and isinstance(v, (int, float)):
                self.notes[k] = max(self.notes.get(k, float("-inf")), v)
            elif k.startswith("sum:") and isinstance(v, (int, float)):
                self.notes[k] = self.notes.get(k, 0) + v
            elif k.startswith("set:") and isinstance(v, list):
                self.notes[k] = sorted(set(self.notes.get(k, [])) | set(map(str, v)))
            else:
                self.notes.setdefault(k, v)
        self.out_of_time = self.out_of_time or st.get("out_of_time", False)

    def check_merged_requirements(self):
        for counter, minimum, what in self.notes.pop("requirements", []):
            got = self.counters.get(counter, 0)
            if got < minimum:
                self.inconclusive_because(
                    f"{what or counter}: deciding monitor ran {got} times, needs >= {minimum}")

    # ----------------------------------------------------------------- finishing
    def finish(self, level="exploration"):
        """Write evidence + replay files, print verdict lines, return exit code."""
        wall = time.time() - self.t0
        for k, (n, what) in self.known_hits.items():
            print(f"KNOWN-FINDING: property={self.prop} {what} [key={k}, seen {n}x in this run]")
        code = EXIT_HELD
        if self.violations:
            code = EXIT_VIOLATED
            rdir = os.environ.get("VERIF_REPLAY_DIR") or os.path.join(VERIF_DIR, "replays")
            os.makedirs(rdir, exist_ok=True)
            for i, v in enumerate(self.violations):
                path = os.path.join(rdir, f"{self.prop}-{self.tier}-s{self.seed}-{i}.json")
                with open(path, "w") as fh:
                    json.dump(v, fh, indent=1)
                print(f"VIOLATION property={self.prop} replay={path}")
                print(f"  oracle={v['oracle']} workload={v['workload']} case={v['case_idx']}: {v['what'][:400]}")
        elif self.inconclusive or self.evaluations == 0:
            code = EXIT_INCONCLUSIVE
            if self.evaluations == 0:
                self.inconclusive_because("no case was executed")
            for r in self.inconclusive:
                print(f"INCONCLUSIVE property={self.prop} reason={r}")

        if self.replay is None:
            cov = {
                "evaluations": int(self.evaluations),
                "distinct_nontrivial": int(len(self.buckets)),
                "rule": self.rule,
                "samples": self.samples,
                "exhaustive": bool(self.exhaustive),
                "monitor_counters": {k: int(v) for k, v in sorted(self.counters.items())},
                "known_finding_hits": {k: v[0] for k, v in self.known_hits.items()},
                "inconclusive_reasons": self.inconclusive,
                "verdict": {0: "held", 1: "violated", 2: "inconclusive"}[code],
                "buckets_sample": [list(b) for b in sorted(self.buckets)[:12]],
            }
            cov.update(self.notes)
            ev = {
                "property_id": self.prop,
                "tier": self.tier,
                "seed": self.seed,
                "level": level,
                "coverage": cov,
                "assumptions": self.assumptions,
                "wall_s": round(wall, 2),
                "violations": len(self.violations),
            }
            evdir = os.environ.get("VERIF_EVIDENCE_DIR") or os.path.join(VERIF_DIR, "evidence")
            os.makedirs(evdir, exist_ok=True)
            path = os.path.join(evdir, f"{self.prop}.json")
            with open(path + ".tmp", "w") as fh:
                json.dump(ev, fh, indent=1)
            os.replace(path + ".tmp", path)
        verdict = {0: "HELD", 1: "VIOLATED", 2: "INCONCLUSIVE"}[code]
        print(f"{verdict} property={self.prop} tier={self.tier} seed={self.seed} evaluations={self.evaluations} "
              f"distinct_nontrivial={len(self.buckets)} wall={wall:.1f}s")
        return code
