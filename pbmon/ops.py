"""Table of the public operations of pulsarbat (probe points shared by C09/C14/C16)."""

import pulsarbat as pb


def op_points():
    T = pb.transforms.transforms
    D = pb.transforms.dedispersion
    C = pb.contrib.misc
    pts = [
        (pb.Signal, "__getitem__", "Signal.__getitem__"),
        (pb.RadioSignal, "__getitem__", "RadioSignal.__getitem__"),
        (pb.FullStokesSignal, "__getitem__", "FullStokesSignal.__getitem__"),
        (pb.Signal, "__array_ufunc__", "Signal.__array_ufunc__"),
        (pb.Signal, "__array__", "Signal.__array__"),
        (pb.Signal, "compute", "Signal.compute"),
        (pb.Signal, "persist", "Signal.persist"),
        (pb.Signal, "to_dask_array", "Signal.to_dask_array"),
        (pb.Signal, "rechunk", "Signal.rechunk"),
        (pb.Signal, "like", "Signal.like"),
        (pb.Signal, "contains", "Signal.contains"),
        (pb.BasebandSignal, "to_intensity", "BasebandSignal.to_intensity"),
        (pb.DualPolarizationSignal, "to_linear", "DualPolarizationSignal.to_linear"),
        (pb.DualPolarizationSignal, "to_circular", "DualPolarizationSignal.to_circular"),
        (pb.DualPolarizationSignal, "to_stokes", "DualPolarizationSignal.to_stokes"),
        (T, "concatenate", "concatenate"),
        (T, "snippet", "snippet"),
        (T, "time_shift", "time_shift"),
        (T, "freq_shift", "freq_shift"),
        (T, "fast_len", "fast_len"),
        (D, "coherent_dedispersion", "coherent_dedispersion"),
        (D, "incoherent_dedispersion", "incoherent_dedispersion"),
        (D.DispersionMeasure, "chirp_from_signal", "DM.chirp_from_signal"),
        (D.DispersionMeasure, "chirp_function", "DM.chirp_function"),
        (D.DispersionMeasure, "time_delay", "DM.time_delay"),
        (D.DispersionMeasure, "sample_delay", "DM.sample_delay"),
        (C, "stft", "stft"),
        (C, "istft", "istft"),
        (pb.readers.BaseReader, "read", "BaseReader.read"),
        (pb.readers.BaseReader, "dask_read", "BaseReader.dask_read"),
        (pb.readers.BasebandReader, "read", "BasebandReader.read"),
        (pb.utils, "real_to_complex", "real_to_complex"),
    ]
    return pts
