"""Independent DFT oracle.

N <= MATRIX_MAX: explicit O(N^2) DFT matrix in extended precision (np.longdouble), twiddle angles
reduced exactly (k*n mod N in integers).  Larger N: numpy.fft in extended precision (clongdouble; a
different build of the transform from the scipy.fft that pulsarbat calls, and wider than any input).
"""

import functools
import numpy as np

MATRIX_MAX = 384
LD = np.longdouble
CLD = np.clongdouble


# a longdouble pi with full extended precision
_PI_LD = LD("3.14159265358979323846264338327950288419716939937510")


def matrix(N, sign=-1):
    """DFT matrix exp(sign 2 pi i k n / N) in extended precision (cached for N <= MATRIX_MAX)."""
    if N <= MATRIX_MAX:
        return _matrix_cached(N, sign)
    return _matrix(N, sign)


@functools.lru_cache(maxsize=64)
def _matrix_cached(N, sign):
    return _matrix(N, sign)


def _matrix(N, sign=-1):
    k = np.arange(N, dtype=np.int64)
    m = (k[:, None] * k[None, :]) % N
    ang = (2 * _PI_LD) * m.astype(LD) / LD(N)
    return (np.cos(ang) + (1j * sign) * np.sin(ang)).astype(CLD)


def dft(x, axis=0, inverse=False):
    """Forward (or inverse, 1/N-normalised) DFT of x along axis; complex128 output."""
    x = np.asarray(x)
    N = x.shape[axis]
    if N == 0:
        return x.astype(np.complex128)
    if N <= MATRIX_MAX:
        W = matrix(N, +1 if inverse else -1)
        xm = np.moveaxis(x, axis, 0).astype(CLD)
        y = np.tensordot(W, xm, axes=(1, 0))
        if inverse:
            y = y / LD(N)
        return np.moveaxis(y, 0, axis).astype(np.complex128)
    # numpy.fft (pocketfft templated on long double) in extended precision: a different build and a wider
    # type than the scipy.fft float32/float64 transforms pulsarbat uses
    xd = x.astype(CLD)
    return (np.fft.ifft if inverse else np.fft.fft)(xd, axis=axis).astype(np.complex128)


def dft_ld(x, axis=0, inverse=False):
    """As dft but keeps longdouble (only for N <= MATRIX_MAX)."""
    x = np.asarray(x)
    N = x.shape[axis]
    if N > 1024:
        return (np.fft.ifft if inverse else np.fft.fft)(x.astype(CLD), axis=axis)
    W = matrix(N, +1 if inverse else -1)
    xm = np.moveaxis(x, axis, 0).astype(CLD)
    y = np.tensordot(W, xm, axes=(1, 0))
    if inverse:
        y = y / LD(N)
    return np.moveaxis(y, 0, axis)


def fftfreq_bins(N):
    """Signed DFT bin numbers (0, 1, ..., -2, -1) computed with integers."""
    k = np.arange(N, dtype=np.int64)
    k[k >= (N + 1) // 2] -= N
    return k


def l2(x, axis=0):
    return np.sqrt(np.sum(np.abs(np.asarray(x, dtype=np.complex128)) ** 2, axis=axis))
