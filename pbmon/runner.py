"""Entry point:  python -m pbmon.runner <ID> [--tier quick|thorough] [--replay FILE] [--shard i/n]

The parent process splits the case space of every workload of the property over worker
subprocesses (``subprocess.run(timeout=...)`` each, never a multiprocessing.Pool), merges their
monitor state, decides the three-valued verdict and writes evidence/<ID>.json.
"""

import argparse
import importlib
import json
import os
import shutil
import subprocess
import sys
import tempfile
import time
import warnings
import faulthandler


def _bootstrap():
    repo = os.environ.get("VERIF_REPO", "/repo")
    verif = os.path.dirname(os.path.dirname(os.path.abspath(__file__)))
    for p in (verif, repo):
        if p in sys.path:
            sys.path.remove(p)
    sys.path.insert(0, verif)
    sys.path.insert(0, repo)
    warnings.filterwarnings("ignore")
    os.environ.setdefault("PULSARBAT_VERIF", "1")
    import pulsarbat  # noqa
    real = os.path.realpath(pulsarbat.__file__)
    if not real.startswith(os.path.realpath(repo) + os.sep):
        print(f"INCONCLUSIVE reason=pulsarbat imported from {real}, not from {repo}")
        sys.exit(2)
    return repo, verif


REACH_CASES = 24


def _merge_reach(total, part):
    for f, lines in (part or {}).items():
        d = total.setdefault(f, {})
        for ln, n in lines.items():
            d[ln] = d.get(ln, 0) + n


def _anchors(prop, verif_dir):
    try:
        with open(os.path.join(verif_dir, "properties.jsonl")) as fh:
            for line in fh:
                p = json.loads(line)
                if p["id"] == prop:
                    return [m["where"] for m in p["anchors"].get("mechanism", []) if m.get("where")]
    except Exception:
        pass
    return []


def run_worker(args):
    from pbmon.core import Ctx, HarnessError, ValidInputRefused
    replay = None
    if args.replay:
        with open(args.replay) as fh:
            replay = json.load(fh)
        args.seed = replay.get("seed", args.seed)
        args.tier = replay.get("tier", args.tier)
    si, sn = (int(x) for x in args.shard.split("/"))
    ctx = Ctx(args.prop, tier=args.tier, seed=args.seed, shard=(si, sn), replay=replay,
              budget_s=args.budget)
    mod = importlib.import_module(f"pbmon.props.{args.prop}")
    scratch = tempfile.mkdtemp(prefix=f"pbmon-{args.prop}-")
    ctx.scratch = scratch
    teardown = None
    from pbmon import inject
    reach_total = {}
    verif_dir = os.path.dirname(os.path.dirname(os.path.abspath(__file__)))
    repo = os.environ.get("VERIF_REPO", "/repo")
    try:
        teardown = mod.setup(ctx) if hasattr(mod, "setup") else None
        wls = mod.workloads(ctx)
        for name, ncases, func in wls:
            if replay is not None:
                if replay.get("workload") != name:
                    continue
                idxs = [int(replay["case_idx"])]
            elif args.only and name not in args.only.split(","):
                continue
            else:
                idxs = range(si, ncases, sn)
            if si == 0 and replay is None and not args.only and name != "R":
                # reach pass (worker 0 only): REACH_CASES case indices spread evenly over this workload's case space are run once more
                # with line monitoring on, whatever worker owns them; their monitor events count, their evaluations do not
                inject.tool().start_reach()
                nreach = int(getattr(mod, "REACH_CASES", {}).get(name, REACH_CASES)) if isinstance(getattr(mod, "REACH_CASES", None), dict) else REACH_CASES
                for ridx in sorted({int(round(k * (ncases - 1) / max(1, nreach - 1))) for k in range(min(ncases, nreach))}):
                    ctx.set_case(name, ridx)
                    try:
                        func(ctx, ridx, ctx.rng(name, ridx))
                    except Exception:
                        pass
                _merge_reach(reach_total, inject.tool().stop_reach())
            for idx in idxs:
                if ctx.timed_out():
                    ctx.count(f"cases_skipped_out_of_time[{name}]", len(range(idx, ncases, sn)))
                    break
                ctx.set_case(name, idx)
                rng = ctx.rng(name, idx)
                try:
                    func(ctx, idx, rng)
                except HarnessError:
                    raise
                except ValidInputRefused as exc:
                    ctx.violation(exc.oracle, exc.what, None, dict(exc.features, what="valid_input_refused"))
                except Exception as exc:  # a bug in the harness, not a verdict
                    import traceback
                    tb = traceback.format_exc()
                    ctx.inconclusive_because(
                        f"harness error in workload {name} case {idx}: {type(exc).__name__}: {exc}")
                    sys.stderr.write(tb)
                    ctx.count("harness_errors")
                    if ctx.counters["harness_errors"] > 5:
                        break
                ctx.evaluations += 1
                ctx.count(f"cases[{name}]")
        if si == 0 and replay is None and not args.only:
            anchors = _anchors(args.prop, verif_dir)
            hits = inject.anchor_hits(reach_total, anchors, repo)
            ctx.note("anchor_reach", {"note": f"statement-start lines of pulsarbat executed during a reach pass over {REACH_CASES} cases spread evenly over the case space "
                                              "of each workload (worker 0), summed over the line ranges named in the property's anchors "
                                              "(anchor line numbers refer to the pinned source and are mapped onto the current tree with difflib)",
                                      "ranges": hits,
                                      "files": {f: len(v) for f, v in reach_total.items()}})
            if anchors and sum(h["hits"] for h in hits.values()) == 0:
                ctx.inconclusive_because("reach witness: no anchored line of the property's mechanism was executed")
        if hasattr(mod, "finalize"):
            mod.finalize(ctx)
    finally:
        if teardown:
            try:
                teardown()
            except Exception:
                pass
        shutil.rmtree(scratch, ignore_errors=True)
    return ctx, mod


def main(argv=None):
    ap = argparse.ArgumentParser()
    ap.add_argument("prop")
    ap.add_argument("--tier", default=os.environ.get("VERIF_TIER", "quick"), choices=["quick", "thorough"])
    ap.add_argument("--seed", type=int, default=int(os.environ.get("VERIF_SEED", "0")))
    ap.add_argument("--replay")
    ap.add_argument("--shard", default=None)
    ap.add_argument("--state-out")
    ap.add_argument("--jobs", type=int, default=None)
    ap.add_argument("--only", default=None, help="comma list of workload names")
    ap.add_argument("--budget", type=float, default=None, help="per-worker wall budget (s)")
    args = ap.parse_args(argv)

    faulthandler.enable()
    repo, verif = _bootstrap()
    from pbmon.core import Ctx

    # ---------------------------------------------------------------- worker mode
    if args.shard is not None or args.replay:
        if args.shard is None:
            args.shard = "0/1"
        ctx, mod = run_worker(args)
        if args.state_out:
            with open(args.state_out, "w") as fh:
                json.dump(ctx.state(), fh)
            return 0
        ctx.rule = getattr(mod, "RULE", "")
        ctx.assumptions = list(getattr(mod, "ASSUMPTIONS", []))
        return ctx.finish(getattr(mod, "LEVEL", "exploration"))

    # ---------------------------------------------------------------- parent mode
    mod = importlib.import_module(f"pbmon.props.{args.prop}")
    jobs = args.jobs or int(os.environ.get("VERIF_JOBS", "0")) or (
        getattr(mod, "JOBS", {}).get(args.tier) or (4 if args.tier == "quick" else 16))
    jobs = max(1, min(jobs, os.cpu_count() or 1))
    budget = args.budget or getattr(mod, "BUDGET", {}).get(args.tier) or (150 if args.tier == "quick" else 1500)
    parent = Ctx(args.prop, tier=args.tier, seed=args.seed)
    tmp = tempfile.mkdtemp(prefix=f"pbmon-{args.prop}-parent-")
    procs = []
    env = dict(os.environ, PYTHONHASHSEED="0", OMP_NUM_THREADS="1", OPENBLAS_NUM_THREADS="1",
               MKL_NUM_THREADS="1")
    try:
        for i in range(jobs):
            out = os.path.join(tmp, f"state-{i}.json")
            cmd = [sys.executable, "-m", "pbmon.runner", args.prop, "--tier", args.tier, "--seed", str(args.seed),
                   "--shard", f"{i}/{jobs}", "--state-out", out, "--budget", str(budget)]
            if args.only:
                cmd += ["--only", args.only]
            log = open(os.path.join(tmp, f"log-{i}.txt"), "w")
            procs.append((i, out, log, subprocess.Popen(cmd, cwd=verif, env=env, stdout=log, stderr=subprocess.STDOUT)))
        deadline = time.time() + budget * 1.5 + 120
        for i, out, log, p in procs:
            try:
                rc = p.wait(timeout=max(1, deadline - time.time()))
            except subprocess.TimeoutExpired:
                p.kill()
                p.wait()
                rc = None
            log.close()
            if rc is None:
                parent.inconclusive_because(f"worker {i} hit the wall-clock watchdog (no verdict from it)")
                continue
            if rc != 0 or not os.path.exists(out):
                with open(log.name) as fh:
                    tail = fh.read()[-1500:]
                parent.inconclusive_because(f"worker {i} exited with {rc}: {tail!r}")
                continue
            with open(out) as fh:
                parent.merge(json.load(fh))
            with open(log.name) as fh:
                txt = fh.read()
            if txt.strip() and os.environ.get("VERIF_VERBOSE"):
                sys.stderr.write(txt)
    finally:
        for _, _, log, p in procs:
            if p.poll() is None:
                p.kill()
        shutil.rmtree(tmp, ignore_errors=True)
    parent.check_merged_requirements()
    if parent.out_of_time:
        parent.notes["budget_note"] = "some workers stopped at their wall budget; skipped cases are counted in cases_skipped_out_of_time[...]"
    parent.notes["workers"] = jobs
    parent.rule = getattr(mod, "RULE", "")
    parent.assumptions = list(getattr(mod, "ASSUMPTIONS", []))
    return parent.finish(getattr(mod, "LEVEL", "exploration"))


if __name__ == "__main__":
    sys.exit(main())
