"""C09 - Dask-backed signals give identical results, lazily, for any chunks or scheduler."""

import math
import os
import threading
import warnings

import numpy as np
import astropy.units as u
import dask
import dask.array as da
import pulsarbat as pb

from .. import exact, gen, probes, monitors, inject
from ..core import REPO

RULE = ("~35 public operations (slicing incl. steps and frequency ranges, Stokes keys, ufuncs, polarisation conversions, to_intensity, "
        "compute/persist/to_dask_array/rechunk, concatenate, snippet, time_shift (scalar/array/crop), freq_shift, fast_len, coherent and "
        "incoherent dedispersion, chirp_from_signal, stft/istft, signal_transform, reader dask_read) applied to a NumPy-backed signal and "
        "to the same signal backed by a *sentinel* Dask array (each chunk a delayed load that appends an event to an O_APPEND log) with "
        "random chunking of every sample axis (and of the time axis), computed under the synchronous, threaded (2-16 workers, sleep(0) "
        "yield injection) and multiprocess schedulers. Oracle: no load event during graph construction; result Dask-backed; class and "
        "all metadata equal; shape/dtype equal; values bitwise (non-FFT ops) or within 32*eps*log2(N+1)*max|ref| (FFT ops); identical "
        "across schedulers; time-chunked FFT ops either equal or refused with Dask's own ValueError; FFT ops also under non-default Dask configuration (array.chunk-size 8-64 KiB on 3000-8192 sample signals). Non-trivial = a computed "
        "comparison on non-empty data; distinct = (op, class, chunk layout kind, scheduler).")
ASSUMPTIONS = [
    "chunk-wise FFTs of columns differ from whole-array FFTs by rounding (pocketfft vectorises across columns), so FFT-based ops are "
    "compared with a norm-relative tolerance, all other ops bitwise",
    "the multiprocess scheduler is sampled (its start-up costs ~0.5 s per compute)",
]
BUDGET = {"quick": 170, "thorough": 1500}
JOBS = {"quick": 4, "thorough": 12}

FFT_OPS = {"time_shift", "time_shift_arr", "time_shift_crop", "snippet_frac", "freq_shift", "freq_shift_arr", "coherent", "coherent_ref",
           "coherent_user_chirp", "stft", "istft"}


def _load(evfile, npyfile, slices, cid):
    """Chunk loader executed by the Dask scheduler (module level: picklable for the multiprocess scheduler)."""
    fd = os.open(evfile, os.O_WRONLY | os.O_APPEND | os.O_CREAT)
    try:
        os.write(fd, f"{cid} {os.getpid()} {threading.get_ident()}\n".encode())
    finally:
        os.close(fd)
    arr = np.load(npyfile, mmap_mode="r")
    return np.array(arr[tuple(slice(a, b) for a, b in slices)])


class Sentinel:
    def __init__(self, scratch, tag):
        self.ev = os.path.join(scratch, f"ev-{tag}.log")
        self.npy = os.path.join(scratch, f"x-{tag}.npy")
        open(self.ev, "w").close()

    def events(self):
        with open(self.ev) as fh:
            return [l.split() for l in fh.read().splitlines() if l.strip()]

    def array(self, x, chunks):
        np.save(self.npy, x)
        src_chunks = da.core.normalize_chunks(chunks, x.shape)
        nb = tuple(len(c) for c in src_chunks)
        blocks = np.empty(nb, dtype=object)
        cid = 0
        for ix in np.ndindex(*nb):
            sl = tuple((int(sum(c[:i])), int(sum(c[:i + 1]))) for c, i in zip(src_chunks, ix))
            shp = tuple(b - a for a, b in sl)
            d = dask.delayed(_load, pure=False)(self.ev, self.npy, sl, cid)
            blocks[ix] = da.from_delayed(d, shape=shp, dtype=x.dtype)
            cid += 1
        return da.block(blocks.tolist()) if x.ndim else da.from_array(x)


def build_ops(sig, rng):
    """(label, fn(signal) -> result) pairs valid for this signal; fn must be deterministic (arguments fixed here)."""
    ops = []
    n = len(sig)
    ss = sig.sample_shape
    sr = sig.sample_rate

    def add(label, fn):
        ops.append((label, fn))

    a = int(rng.integers(0, n))
    b = int(rng.integers(a + 1, n + 1))
    add("slice", lambda z: z[a:b])
    add("slice_step", lambda z: z[a::2])
    add("ufunc_mul", lambda z: z * 2)
    add("ufunc_add_self", lambda z: z + z)
    add("ufunc_abs", lambda z: np.abs(z) if z.dtype.kind != "c" or type(z) in (pb.Signal, pb.RadioSignal) else z * 1)
    add("compute", lambda z: z.compute())
    add("persist", lambda z: z.persist())
    add("to_dask_array", lambda z: z.to_dask_array())
    add("rechunk", lambda z: z.rechunk())
    add("like", lambda z: type(z).like(z))
    # construction that has to coerce the dtype (integer counts into a float class, real samples into a complex class): still lazy
    if sig.dtype.kind in "fc" and type(sig)._req_dtype:
        def coerce(z):
            d = z.data
            narrow = (d.real if d.dtype.kind == "c" else d)
            narrow = (narrow * 8).astype(np.int16) if sig.dtype.kind == "f" else narrow.astype(np.float32)
            return type(z).like(z, narrow)
        add("construct_coerce", coerce)
    if sig.dtype.kind in "fc":
        # compute, an in-place operator on the same signal object, compute again: the second result shows the update
        def compute_twice(z):
            z.compute()
            np.multiply(z, 2, out=z)
            return z.compute()
        add("compute_inplace_compute", compute_twice)
    c = int(rng.integers(1, n)) if n > 1 else 0
    if n > 1:
        add("concatenate", lambda z: pb.concatenate([z[:c], z[c:]]))
    k = int(rng.integers(0, n + 1))
    ti = int(rng.integers(0, n - k + 1))
    add("snippet_int", lambda z: pb.snippet(z, ti, k))
    if n - k >= 1:
        tf = float(rng.uniform(0, n - k))
        add("snippet_frac", lambda z: pb.snippet(z, tf, k))
    s1 = float(rng.uniform(-3, 3))
    add("time_shift", lambda z: pb.time_shift(z, s1))
    add("time_shift_crop", lambda z: pb.time_shift(z, s1, crop=True))
    if ss:
        sarr = rng.uniform(-3, 3, size=ss[:1])
        add("time_shift_arr", lambda z: pb.time_shift(z, sarr, crop=bool(len(ss) % 2)))
    add("fast_len", lambda z: pb.fast_len(z))
    tr = pb.signal_transform(_affine)
    add("signal_transform", lambda z: tr(z))
    # extra arguments of the wrapped function given positionally and by keyword
    tr2 = pb.signal_transform(_affine2)
    add("signal_transform_posargs", lambda z: tr2(z, 3.0, 5.0))
    add("signal_transform_kwargs", lambda z: tr2(z, b=5.0, a=3.0))
    # wrapped functions that change the dtype (complex -> float, anything -> bool/float64)
    tr_abs = pb.signal_transform(np.abs)
    tr_thr = pb.signal_transform(_threshold)
    if isinstance(sig, pb.BasebandSignal):
        add("signal_transform_abs", lambda z: tr_abs(z, signal_type=pb.IntensitySignal))
    elif type(sig) in (pb.Signal, pb.RadioSignal):
        add("signal_transform_abs", lambda z: tr_abs(z))
        add("signal_transform_threshold", lambda z: tr_thr(z))
    if isinstance(sig, pb.RadioSignal):
        nch = sig.shape[1]
        fa = int(rng.integers(0, nch))
        fb = int(rng.integers(fa + 1, nch + 1))
        add("freq_slice", lambda z: z[:, fa:fb])
        if float(sig.min_freq.to_value(u.Hz)) > 0 and n >= 8:
            bw = float(sig.bandwidth.to_value(u.Hz))
            fc = float(sig.center_freq.to_value(u.Hz))
            per_dm = 4149.377593360996e12 * abs((fc - bw / 2) ** -2 - (fc + bw / 2) ** -2) * float(sr.to_value(u.Hz)) + 1e-300
            dm = pb.DispersionMeasure(float(rng.uniform(0.5, n * 0.3) / per_dm) * float(gen.pick(rng, [1, -1])))
            add("incoherent", lambda z: pb.incoherent_dedispersion(z, dm))
            if isinstance(sig, pb.BasebandSignal):
                add("coherent", lambda z: pb.coherent_dedispersion(z, dm))
                ref = sig.max_freq
                add("coherent_ref", lambda z: pb.coherent_dedispersion(z, dm, ref_freq=ref))
                add("chirp_from_signal", lambda z: dm.chirp_from_signal(z))
                # a caller-supplied chirp that is itself a lazy array (e.g. loaded from disk): judged like the signal's own chunks
                box = {"H": np.asarray(dm.chirp_from_signal(sig)), "lazy": None}

                def user_chirp(z, box=box):
                    lazy = box["lazy"] if isinstance(z.data, da.Array) else None
                    return pb.coherent_dedispersion(z, dm, chirp=box["H"] if lazy is None else lazy)
                user_chirp.box = box
                add("coherent_user_chirp", user_chirp)
    if isinstance(sig, pb.BasebandSignal):
        df = 0.23 * sr
        add("freq_shift", lambda z: pb.freq_shift(z, df))
        dfa = (rng.uniform(-0.4, 0.4, size=ss[:1])) * sr
        add("freq_shift_arr", lambda z: pb.freq_shift(z, dfa))
        add("to_intensity", lambda z: z.to_intensity())
        if n >= 4:
            P = int(gen.pick(rng, [2, 3, 4]))
            add("stft", lambda z: pb.contrib.stft(z, nperseg=P))
            if sig.shape[1] % P == 0:
                add("istft", lambda z: pb.contrib.istft(z, nperseg=P))
    if isinstance(sig, pb.DualPolarizationSignal):
        add("to_linear", lambda z: z.to_linear())
        add("to_circular", lambda z: z.to_circular())
        add("to_stokes", lambda z: z.to_stokes())
    if isinstance(sig, pb.FullStokesSignal):
        key = gen.pick(rng, ["I", "Q", "U", "V"])
        add("stokes_key", lambda z: z[key])
    return ops


def _affine(x):
    return x * 2 + 1


def _affine2(x, a=2.0, b=1.0):
    return x * a + b


def _threshold(x):
    return np.abs(x) > 0.5


def meta_equal(ctx, o, a, b, feats):
    ma, mb = monitors.meta_of(a), monitors.meta_of(b)
    if type(a) is not type(b):
        ctx.violation(o, f"result class {type(b).__name__} on Dask data, {type(a).__name__} on NumPy data", None, dict(feats, what="class"))
        return False
    ok = True
    for k in ("shape", "dtype", "rate", "fc", "bw", "align", "pol", "meta"):
        if ma.get(k) != mb.get(k):
            ctx.violation(o, f"{k}: {mb.get(k)!r} on Dask data, {ma.get(k)!r} on NumPy data", None, dict(feats, what="meta_" + k))
            ok = False
    if not monitors.same_time(ma["start"], mb["start"], 0):
        ctx.violation(o, f"start_time differs between Dask and NumPy runs", None, dict(feats, what="meta_start"))
        ok = False
    return ok


def wl_ops(ctx, idx, rng):
    clsname = gen.CLASS_NAMES[idx % 6]
    n = int(gen.pick(rng, [9, 16, 27, 64, 100]))
    nchan = None if clsname == "Signal" else int(gen.pick(rng, [1, 2, 3, 4, 6, 12]))
    dtype = None
    sig_np, desc = gen.make_signal(rng, clsname, n, nchan=nchan, dtype=dtype, rate=gen.rand_rate(rng, lo=3, hi=7),
                                   fc=None if clsname == "Signal" else gen.rand_freq(rng, 3e8, 3e9),
                                   extra=None if clsname != "Signal" else gen.pick(rng, [(), (3,), (2, 2)]))
    x = np.asarray(sig_np.data)
    with probes.quiet():
        ops = build_ops(sig_np, rng)
    label, fn = ops[int(rng.integers(len(ops)))] if idx % 3 else ops[(idx // 3) % len(ops)]
    time_chunked = (label not in FFT_OPS) and rng.random() < 0.5 or (label in FFT_OPS and rng.random() < 0.15)
    chunks = gen.rand_chunks(rng, x.shape, time_chunked=time_chunked)
    layout = "time" if len(chunks[0]) > 1 else ("single" if all(len(c) == 1 for c in chunks) else "sample")
    sent = Sentinel(ctx.scratch, f"{idx}")
    with probes.quiet():
        xd = sent.array(x, chunks)
        sig_da = type(sig_np).like(sig_np, xd)
        if hasattr(fn, "box"):
            sent_c = Sentinel(ctx.scratch, f"{idx}c")
            sent_c.ev = sent.ev
            H = fn.box["H"]
            fn.box["lazy"] = sent_c.array(H, gen.rand_chunks(rng, H.shape))
    sched = ["synchronous", "threads", "threads", "processes"][idx % 4] if (idx % 8 == 3 or ctx.tier == "thorough") else ["synchronous", "threads"][idx % 2]
    desc.update(op=label, chunks=str(chunks), scheduler=sched, layout=layout)
    ctx.describe_case(desc)
    ctx.sample(desc, limit=8)
    o = "dask_equiv"
    feats = {"op": label, "cls": clsname, "layout": layout, "scheduler": sched}
    with warnings.catch_warnings():
        warnings.simplefilter("ignore")
        ref, rexc = ctx.call(o, fn, sig_np, expect="any", where=f"{label} on NumPy data")
        ev0 = len(sent.events())
        out, dexc = ctx.call(o, fn, sig_da, expect="any", where=f"{label} on Dask data")
    ev1 = len(sent.events())
    ctx.count("oracle[lazy]")
    eager_ops = {"compute", "persist", "compute_inplace_compute"}
    if ev1 != ev0 and label not in eager_ops:
        ctx.violation(o, f"{label}: {ev1 - ev0} chunk loads of the input were executed while the result graph was being built", None,
                      dict(feats, what="eager"))
    if rexc is not None:
        if dexc is None:
            ctx.violation(o, f"{label} raised {type(rexc).__name__} on NumPy data but returned on Dask data", None, dict(feats, what="exc_only_numpy"))
        return
    if dexc is not None:
        # Dask's own refusal is the sanctioned outcome when an axis the operation transforms has several chunks:
        # the time axis for every FFT-based op, and the channel axis for stft/istft (which reshape it into the transformed axis)
        fft_axes = (0, 1) if label in ("stft", "istft") else (0,)
        if (isinstance(dexc, ValueError) and "single chunk" in str(dexc) and label in FFT_OPS
                and any(len(chunks[a]) > 1 for a in fft_axes if a < len(chunks))):
            ctx.count("refused_time_chunked_fft")
            ctx.bucket(label, clsname, layout, "refused")
            return
        ctx.unexpected_exception(o, dexc, f"{label} on Dask data (chunks {chunks})", dict(feats, what="raised_on_dask"))
        return
    # container
    if isinstance(ref, pb.Signal):
        if not isinstance(out, pb.Signal):
            ctx.violation(o, f"{label} returned {type(out).__name__} on Dask data", None, dict(feats, what="type"))
            return
        want_dask = label not in ("compute", "compute_inplace_compute")
        if isinstance(out.data, da.Array) != want_dask:
            ctx.violation(o, f"{label}: result data is {type(out.data).__name__} (Dask-backed input)", None, dict(feats, what="container"))
        if not meta_equal(ctx, o, ref, out, feats):
            return
        ref_x = np.asarray(ref.data) if not isinstance(ref.data, da.Array) else ref.data.compute(scheduler="synchronous")
        lazy = out.data
    else:
        # array results (chirp_from_signal)
        if isinstance(out, da.Array) != True:
            ctx.violation(o, f"{label}: result is {type(out).__name__} for a Dask-backed signal", None, dict(feats, what="container"))
            return
        ref_x = np.asarray(ref)
        lazy = out
        if tuple(lazy.shape) != ref_x.shape or lazy.dtype != ref_x.dtype:
            ctx.violation(o, f"{label}: lazy shape/dtype {lazy.shape}/{lazy.dtype} vs {ref_x.shape}/{ref_x.dtype}", None, dict(feats, what="lazy_meta"))
            return
    ctx.count("oracle[dask_values]")
    tool = inject.tool()
    results = {}
    scheds = [sched] if sched == "synchronous" else ["synchronous", sched]
    for sc in scheds:
        kw = {"scheduler": sc}
        if sc == "threads":
            kw["num_workers"] = int(gen.pick(rng, [2, 4, 8, 16]))
            tool.set_yield(0.05, seed=int(rng.integers(1 << 30)), only_workers=True)
        elif sc == "processes":
            kw["num_workers"] = 2
        try:
            got = lazy.compute(**kw) if isinstance(lazy, da.Array) else np.asarray(lazy)
        except Exception as e:
            tool.clear_yield()
            if isinstance(e, Warning):
                ctx.count("dependency_warning_raised_as_error")
                continue
            ctx.unexpected_exception(o, e, f"computing {label} with scheduler {sc}", dict(feats, what="compute_raised", sched=sc))
            return
        tool.clear_yield()
        results[sc] = np.asarray(got)
        ctx.count(f"computes[{sc}]")
    evs = sent.events()
    if sched == "threads":
        order = tuple(e[0] for e in evs[ev1:])
        tids = len({e[2] for e in evs[ev1:]})
        ctx.count("thread_load_events", len(order))
        ctx.notes.setdefault("set:load_orders", [])
        if len(ctx.notes["set:load_orders"]) < 400:
            ctx.notes["set:load_orders"] = sorted(set(ctx.notes["set:load_orders"]) | {",".join(order[:24]) + f"|t{tids}"})
    for sc, got in results.items():
        if got.shape != ref_x.shape or got.dtype != ref_x.dtype:
            ctx.violation(o, f"{label} [{sc}]: computed shape/dtype {got.shape}/{got.dtype}, NumPy run gives {ref_x.shape}/{ref_x.dtype}", None,
                          dict(feats, what="shape_dtype", sched=sc))
            return
        if got.size == 0:
            continue
        if label in FFT_OPS or label in ("chirp_from_signal",):
            eps = 2.0 ** -23 if got.dtype in (np.dtype(np.complex64), np.dtype(np.float32)) else 2.0 ** -52
            scale = float(np.max(np.abs(ref_x))) + 1e-300
            tol = 32 * eps * math.log2(n + 1) * scale
            err = float(np.max(np.abs(got.astype(np.complex128) - ref_x.astype(np.complex128))))
            ctx.stat_max("fft_op_err_over_tol", err / tol)
            if err > tol:
                ctx.violation(o, f"{label} [{sc}, chunks {chunks}]: max |Dask - NumPy| = {err:.3e} > {tol:.3e} "
                                 f"(= {err / scale:.3e} of max|ref|)", None, dict(feats, what="value", sched=sc))
                return
        else:
            if not np.array_equal(got, ref_x, equal_nan=True):
                bad = np.argwhere(~((got == ref_x) | ((got != got) & (ref_x != ref_x))))[0]
                ctx.violation(o, f"{label} [{sc}, chunks {chunks}]: Dask result differs from the NumPy result at index "
                                 f"{tuple(int(v) for v in bad)}: {got[tuple(bad)]!r} vs {ref_x[tuple(bad)]!r}", None,
                              dict(feats, what="value_bitwise", sched=sc))
                return
        ctx.count("nontrivial[dask]")
    if len(results) == 2:
        a, b = list(results.values())
        ctx.count("oracle[scheduler_identical]")
        if not np.array_equal(a, b, equal_nan=True):
            ctx.violation(o, f"{label}: results differ between schedulers {list(results)}", None, dict(feats, what="scheduler_dependent"))
    for sc in results:
        ctx.bucket(label, clsname, layout, sc)
    for f in (sent.ev, sent.npy, os.path.join(ctx.scratch, f"x-{idx}c.npy")):
        try:
            os.remove(f)
        except OSError:
            pass


def wl_config(ctx, idx, rng):
    """FFT-based transforms under a non-default Dask configuration (small array.chunk-size): the signal is chunked off the time
    axis, so the operation must be accepted and equal the NumPy run."""
    clsname = gen.pick(rng, ["Signal", "BasebandSignal", "RadioSignal"])
    n = int(gen.pick(rng, [3000, 6000, 8192]))
    dtype = np.complex128 if clsname == "BasebandSignal" else gen.pick(rng, [np.float64, np.complex128])
    sig_np, desc = gen.make_signal(rng, clsname, n, nchan=None if clsname == "Signal" else 2, dtype=dtype, extra=() if clsname != "Signal" else (2,),
                                   rate=gen.rand_rate(rng, lo=3, hi=7), fc=None if clsname == "Signal" else gen.rand_freq(rng, 3e8, 3e9))
    x = np.asarray(sig_np.data)
    which = ["time_shift", "snippet_frac", "freq_shift", "time_shift_crop"][idx % 4]
    if which == "freq_shift" and clsname != "BasebandSignal":
        which = "time_shift"
    s1 = float(rng.uniform(-3, 3))
    tf = float(rng.uniform(0, n - 100))
    df = 0.17 * sig_np.sample_rate
    fn = {"time_shift": lambda z: pb.time_shift(z, s1), "time_shift_crop": lambda z: pb.time_shift(z, s1, crop=True),
          "snippet_frac": lambda z: pb.snippet(z, tf, 100), "freq_shift": lambda z: pb.freq_shift(z, df)}[which]
    chunk_size = gen.pick(rng, ["8KiB", "16KiB", "64KiB"])
    o = "dask_equiv"
    feats = {"op": which, "cls": clsname, "layout": "config:" + chunk_size, "scheduler": "synchronous"}
    desc.update(op=which, dask_config={"array.chunk-size": chunk_size})
    ctx.describe_case(desc)
    ctx.sample(desc, limit=2)
    with warnings.catch_warnings():
        warnings.simplefilter("ignore")
        ref, rexc = ctx.call(o, fn, sig_np, where=f"{which} on NumPy data")
        if rexc is not None:
            return
        with dask.config.set({"array.chunk-size": chunk_size}):
            with probes.quiet():
                xd = da.from_array(x, chunks=(n,) + tuple(1 for _ in x.shape[1:]))
                sig_da = type(sig_np).like(sig_np, xd)
            out, dexc = ctx.call(o, fn, sig_da, where=f"{which} on Dask data with array.chunk-size={chunk_size}", features=dict(feats, what="raised_on_dask"))
            if dexc is not None:
                return
            try:
                got = out.data.compute(scheduler="synchronous")
            except Exception as e:
                ctx.unexpected_exception(o, e, f"computing {which} with array.chunk-size={chunk_size}", dict(feats, what="compute_raised"))
                return
    ctx.count("oracle[dask_values]")
    if not meta_equal(ctx, o, ref, out, feats):
        return
    ref_x = np.asarray(ref.data)
    scale = float(np.max(np.abs(ref_x))) + 1e-300
    if got.shape != ref_x.shape or float(np.max(np.abs(got - ref_x))) > 32 * 2.0 ** -52 * math.log2(n + 1) * scale:
        ctx.violation(o, f"{which} under array.chunk-size={chunk_size}: Dask result differs from the NumPy result", None, dict(feats, what="value"))
    else:
        ctx.count("nontrivial[dask]")
    ctx.bucket(which, clsname, "config", chunk_size)


def wl_readers(ctx, idx, rng):
    D = os.path.join(REPO, "tests", "data")
    kind = idx % 3
    with probes.quiet():
        if kind == 0:
            r = pb.readers.BasebandReader(os.path.join(D, "sample.vdif"), signal_type=pb.Signal)
        elif kind == 1:
            r = pb.readers.GUPPIRawReader([os.path.join(D, f"fake.{i}.raw") for i in range(4)])
        else:
            r = pb.readers.DADAStokesReader(os.path.join(D, "stokes_ef.dada"))
    L = len(r)
    n = int(rng.integers(1, min(L, 3000)))
    off = int(rng.integers(0, L - n + 1))
    o = "dask_equiv"
    calls0 = ctx.counters["read_array_calls"]
    lazy, exc = ctx.call(o, r.dask_read, off, n, where="dask_read")
    if exc is not None:
        return
    ctx.count("oracle[lazy]")
    if ctx.counters["read_array_calls"] != calls0:
        ctx.violation(o, "dask_read executed _read_array before compute", None, {"what": "eager", "op": "dask_read"})
    eager, exc = ctx.call(o, r.read, off, n, where="read")
    if exc is not None:
        return
    # the flag as any truthy value (a NumPy bool from a comparison, 1): still a lazy, Dask-backed read
    flag = gen.pick(rng, [np.True_, 1, np.bool_(True), np.int64(1)])
    calls1 = ctx.counters["read_array_calls"]
    lz3, exc3 = ctx.call(o, r.read, off, n, where=f"read(use_dask={flag!r})", use_dask=flag)
    if exc3 is None:
        ctx.count("oracle[lazy]")
        if not isinstance(lz3.data, da.Array):
            ctx.violation(o, f"read(use_dask={flag!r}) returned {type(lz3.data).__name__} data", None, {"what": "container", "op": "read_use_dask_truthy"})
        elif ctx.counters["read_array_calls"] != calls1:
            ctx.violation(o, f"read(use_dask={flag!r}) executed _read_array before compute", None, {"what": "eager", "op": "read_use_dask_truthy"})
    meta_equal(ctx, o, eager, lazy, {"op": "dask_read"})
    if not isinstance(lazy.data, da.Array):
        ctx.violation(o, "dask_read result is not Dask-backed", None, {"what": "container", "op": "dask_read"})
        return
    # explicit chunks= (also splitting the time axis): same data as the eager read, for every scheduler
    ck = (int(rng.integers(1, max(2, n))),) + tuple(int(rng.integers(1, d + 1)) for d in lazy.shape[1:])
    lz2, exc2 = ctx.call(o, r.dask_read, off, n, where=f"dask_read(chunks={ck})", chunks=ck)
    if exc2 is None:
        ctx.count("oracle[dask_values]")
        meta_equal(ctx, o, eager, lz2, {"op": "dask_read_chunks"})
        try:
            g2 = lz2.data.compute(scheduler=gen.pick(rng, ["synchronous", "threads"]))
            if not np.array_equal(g2, np.asarray(eager.data)):
                ctx.violation(o, f"dask_read(chunks={ck}) differs from the eager read (reader kind {kind})", None,
                              {"what": "value_bitwise", "op": "dask_read_chunks"})
            else:
                ctx.count("nontrivial[dask]")
        except Exception as e:
            if not isinstance(e, Warning):
                ctx.unexpected_exception(o, e, f"computing dask_read(chunks={ck})", {"what": "compute_raised", "op": "dask_read_chunks"})
    # pieces read lazily, concatenated and transformed, computed under threads
    c = int(rng.integers(1, n)) if n > 1 else 0
    for sc in ("synchronous", "threads") + (("processes",) if (idx // 3) % 4 == 0 else ()):
        try:
            got = lazy.data.compute(scheduler=sc, **({"num_workers": 2} if sc == "processes" else {}))
        except Exception as e:
            if isinstance(e, Warning):
                ctx.count("dependency_warning_raised_as_error")
                continue
            ctx.unexpected_exception(o, e, f"compute dask_read [{sc}]", {"what": "compute_raised", "op": "dask_read"})
            return
        ctx.count("oracle[dask_values]")
        if not np.array_equal(got, np.asarray(eager.data)):
            ctx.violation(o, f"dask_read [{sc}] differs from the eager read", None, {"what": "value_bitwise", "op": "dask_read", "sched": sc})
        else:
            ctx.count("nontrivial[dask]")
    if c:
        with probes.quiet():
            spans = [(off + j * (n // 4), n // 4) for j in range(4)] if n >= 8 else [(off, c), (off + c, n - c)]
            parts = [r.dask_read(a_, b_) for a_, b_ in spans]
        whole, exc = ctx.call(o, pb.concatenate, parts, where="concatenate(dask reads)")
        if exc is None:
            tool = inject.tool()
            tool.set_yield(0.05, seed=int(rng.integers(1 << 30)), only_workers=True)
            try:
                got = whole.data.compute(scheduler="threads", num_workers=4)
                # same pieces read eagerly (real-sampled files are Hilbert-converted per read, so pieces != one spanning read)
                want = np.concatenate([np.asarray(r.read(a_, b_).data) for a_, b_ in spans], axis=0)
                ctx.count("oracle[dask_values]")
                if not np.array_equal(got, want):
                    ctx.violation(o, "concatenated lazy reads computed with the threaded scheduler differ from the eager read", None,
                                  {"what": "value_bitwise", "op": "dask_read_concat", "sched": "threads"})
            except Exception as e:
                if isinstance(e, Warning):
                    ctx.count("dependency_warning_raised_as_error")
                else:
                    ctx.unexpected_exception(o, e, "threaded compute of concatenated lazy reads", {"what": "compute_raised", "op": "dask_read_concat"})
            tool.clear_yield()
    # two reader instances with identical shape/dtype/rate/start but different data, combined in ONE graph
    if kind == 0:
        with probes.quiet():
            r2 = pb.readers.BasebandReader(os.path.join(D, "sample.vdif"), signal_type=pb.Signal, lower_sideband=True)
            a, b = r.dask_read(off, n), r2.dask_read(off, n)
            ea, eb = np.asarray(r.read(off, n).data), np.asarray(r2.read(off, n).data)
        for sc in ("synchronous", "threads"):
            try:
                xa, xb = dask.compute(a.data, b.data, scheduler=sc)
                prod = (a * np.conj(b)).data.compute(scheduler=sc)
            except Exception as e:
                if not isinstance(e, Warning):
                    ctx.unexpected_exception(o, e, "dask.compute(two readers)", {"what": "compute_raised", "op": "two_readers"})
                continue
            ctx.count("oracle[two_readers]")
            if not (np.array_equal(xa, ea) and np.array_equal(xb, eb)) or not np.array_equal(prod, ea * np.conj(eb)):
                ctx.violation(o, f"two readers of the same file (upper / lower sideband) read lazily at the same (offset, n) and computed in "
                                 f"one graph [{sc}] do not both return their own data", None, {"what": "graph_collision", "sched": sc})
    from .C11 import quiet_dependency_warnings
    quiet_dependency_warnings()
    ctx.bucket("dask_read", kind)
    ctx.describe_case({"reader": kind, "offset": off, "n": n})


def workloads(ctx):
    q = ctx.tier == "quick"
    from .C20 import wl_fft         # pb.fft on NumPy vs sentinel-Dask arrays (axis/axes/n/s/norm keywords), as in C20
    return [("ops", 420 if q else 16800, wl_ops), ("config", 24 if q else 480, wl_config), ("readers", 18 if q else 360, wl_readers),
            ("fft", 336 if q else 6720, wl_fft)]


def setup(ctx):
    from .C11 import ReadArrayCounter, quiet_dependency_warnings
    quiet_dependency_warnings()
    ReadArrayCounter(ctx).install()

    def teardown():
        probes.detach_all()
        inject.tool().stop()
    return teardown


def finalize(ctx):
    for e in probes.monitor_errors():
        ctx.inconclusive_because("monitor error: " + e[:600])
    ctx.require("oracle[lazy]", 300, "laziness oracle")
    ctx.require("nontrivial[dask]", 300, "computed comparisons")
    ctx.require("oracle[scheduler_identical]", 100, "cross-scheduler comparisons")
    ctx.require("computes[threads]", 100, "threaded computes")
    ctx.require("computes[processes]", 5, "multiprocess computes")
    n = len(ctx.notes.get("set:load_orders", []))
    ctx.note("sum:distinct_thread_load_orders_per_worker", n)
