"""C12 - snippet returns exactly n samples starting exactly at the requested time."""

import math
import operator
from fractions import Fraction as F

import numpy as np
import astropy.units as u
from astropy.time import Time
import dask.array as da
import pulsarbat as pb

from .. import exact, gen, probes, monitors, dsp, refdft
from .C03 import value_tol

from ..replay import wl_R

RULE = ("signals (real/complex, all classes, sample shapes, len in {1,2,16,17,1000,1024,20011,32768(thorough: 65536)}, start None/Time, "
        "NumPy/Dask) x n in {0,1,len,random} x t in {0, len-n, integers, k+1/2, k+eps, k+1-eps, deep-in-signal small fractions} in the "
        "three forms (sample count, duration Quantity, absolute Time) plus out-of-range / invalid requests. Every snippet call is "
        "judged: length, start time (exact rational), bitwise equality with z[t:t+n] for whole-sample t, independent DFT "
        "interpolation reference otherwise. Non-trivial = a value or refusal oracle ran; distinct = (len class, t kind, form, n kind, "
        "dtype kind, backend).")
ASSUMPTIONS = [
    "interpolation tolerance as C03 plus pi*delta*||x||_2 where delta = time resolution (60 ps + 2^-51 |t|) in samples, for the "
    "Quantity / Time forms",
    "requests within the time-resolution guard band of the two range boundaries (Quantity/Time forms only) may either succeed or raise",
]
BUDGET = {"quick": 110, "thorough": 1200}


def t_exact(m, t):
    """Requested start in samples as an exact Fraction, plus the time-resolution slack (samples)."""
    if isinstance(t, Time):
        if m["start"] is None:
            return None, None
        ts = exact.time_diff_s(t, m["start"])
        return ts * m["rate"], exact.time_tol(ts, 2) * m["rate"]
    if isinstance(t, u.Quantity):
        ts = F(float(t.to_value(u.s)))
        return ts * m["rate"], (8 * exact.REL * abs(ts)) * m["rate"] + F(1, 10 ** 12)
    return exact.fr(t), F(0)


class SnippetMonitor:
    def __init__(self, ctx, oracle="snippet"):
        self.ctx, self.o = ctx, oracle

    def install(self):
        probes.attach(pb.transforms.transforms, "snippet", self, "snippet")
        return self

    def pre(self, point, args, kwargs):
        z = args[0]
        if not isinstance(z, pb.Signal):
            return None
        return monitors.meta_of(z)

    def post(self, point, args, kwargs, m, out, exc):
        ctx, o = self.ctx, self.o
        if m is None:
            return
        z = args[0]
        t = args[1] if len(args) > 1 else kwargs.get("t")
        n = args[2] if len(args) > 2 else kwargs.get("n")
        # the signal the snippet was taken from is still what it was (the next snippet of it starts from the same labels)
        m_after = monitors.meta_of(z)
        ctx.count("oracle[snippet_input_unchanged]")
        for k_ in ("rate", "fc", "bw", "align", "pol", "meta", "len", "dtype"):
            if k_ in m and m[k_] != m_after.get(k_):
                ctx.violation(o, f"snippet changed {k_} of the signal it was given: {m[k_]!r} -> {m_after.get(k_)!r}", None,
                              {"what": "input_relabelled", "attr": k_})
        if not monitors.same_time(m["start"], m_after["start"], 0):
            drift = None if (m["start"] is None or m_after["start"] is None) else float(exact.time_diff_s(m_after["start"], m["start"]) * m["rate"])
            ctx.violation(o, f"snippet moved the start_time of the signal it was given (by {drift} samples)", None,
                          {"what": "input_relabelled", "attr": "start"})
        if np.ndim(t if not isinstance(t, Time) else 0) > 0 or (isinstance(t, Time) and not t.isscalar) or isinstance(t, (str, bytes, type(None))):
            return          # non-scalar / non-numeric t: outside the property's domain
        ctx.count("snippet_events")
        form = "time" if isinstance(t, Time) else "quantity" if isinstance(t, u.Quantity) else "samples"
        feats = {"form": form, "cls": m["cls"].__name__, "dask": m["dask"]}
        N = m["len"]
        # ---- what should happen
        try:
            n_i = operator.index(n)
        except TypeError:
            if exc is None or not isinstance(exc, TypeError):
                ctx.violation(o, f"non-integer n={n!r} did not raise TypeError (got {type(exc).__name__ if exc else 'a result'})", None,
                              dict(feats, what="n_type"))
            else:
                ctx.count("oracle[snippet_refusal]")
            return
        te, slack = t_exact(m, t)
        must_raise = None
        if n_i < 0:
            must_raise = "negative n"
        elif isinstance(t, Time) and m["start"] is None:
            must_raise = "Time without start_time"
        elif te is not None:
            if te < -slack or te + n_i > N + slack:
                must_raise = "out of range"
            elif te < slack or te + n_i > N - slack:
                if te < 0 or te + n_i > N or slack > 0:
                    # inside the guard band of a boundary: either outcome (only for inexact forms, or exactly on the boundary -> must succeed)
                    if not (form == "samples"):
                        if exc is not None and not isinstance(exc, ValueError):
                            ctx.violation(o, f"boundary request raised {type(exc).__name__}, not ValueError", None, dict(feats, what="exc_type"))
                        if exc is not None:
                            ctx.count("ambiguous[boundary_request]")
                            return
        if must_raise:
            ctx.count("oracle[snippet_refusal]")
            if exc is None:
                ctx.violation(o, f"snippet(t={float(te) if te is not None else t!r}, n={n_i}) on len {N} ({must_raise}) returned "
                                 f"{len(out)} samples instead of raising ValueError", None, dict(feats, what="missing_refusal", why=must_raise))
            elif not isinstance(exc, ValueError):
                ctx.violation(o, f"{must_raise}: raised {type(exc).__name__}, expected ValueError", None, dict(feats, what="exc_type"))
            return
        if exc is not None:
            if form == "samples" or te is None or not (te < slack * 4 or te + n_i > N - slack * 4):
                ctx.unexpected_exception(o, exc, f"snippet(t={float(te) if te is not None else t!r}, n={n_i}, len={N})", dict(feats, what="raised"))
            return
        # ---- result checks
        ctx.count("oracle[snippet_result]")
        if type(out) is not m["cls"]:
            ctx.violation(o, f"snippet returned {type(out).__name__}", None, dict(feats, what="class"))
            return
        if len(out) != n_i:
            ctx.violation(o, f"snippet(t={float(te)}, n={n_i}) returned {len(out)} samples", None, dict(feats, what="len"))
            return
        mo = monitors.meta_of(out)
        for k in ("rate", "fc", "bw", "align", "pol", "meta", "dtype", "dask"):
            if k in m and m[k] != mo.get(k):
                if k == "dtype" and np.dtype(m[k]).kind in "iub" and te != math.floor(te) and np.dtype(mo[k]).kind == "f":
                    continue        # integer samples interpolated at a fractional offset are no longer integers
                ctx.violation(o, f"snippet changed {k}: {m[k]!r} -> {mo.get(k)!r}", None, dict(feats, what="meta_" + k))
        # a grid instant written as a time, or a residual the shift routine treats as zero (|s| <= 1e-6, see C03): either path is right
        near_whole = abs(te - round(te)) <= max(slack * 4, F(1, 10 ** 6))
        if np.dtype(m["dtype"]).kind in "iub" and not near_whole and np.dtype(mo["dtype"]).kind in "iub" and n_i > 0:
            ctx.violation(o, f"snippet at a fractional offset of {m['dtype']} data returned {mo['dtype']} samples: the interpolated values "
                             "were rounded back to integers", None, dict(feats, what="int_truncation"))
        if tuple(mo["shape"][1:]) != tuple(m["shape"][1:]):
            ctx.violation(o, "snippet changed the sample shape", None, dict(feats, what="shape"))
            return
        if m["start"] is None:
            if out.start_time is not None:
                ctx.violation(o, "snippet gave a start time to a signal without one", None, dict(feats, what="acquired"))
        elif n_i > 0 or True:
            want = te / m["rate"]
            got = exact.time_diff_s(out.start_time, m["start"]) if out.start_time is not None else None
            tol = exact.time_tol(want, 3) + slack / m["rate"]
            if got is None or abs(got - want) > tol:
                ctx.violation(o, f"snippet start_time is start + {None if got is None else float(got)!r} s, requested t = {float(te)!r} samples "
                                 f"= {float(want)!r} s (err {None if got is None else float((got - want) * m['rate'])!r} samples)",
                              None, dict(feats, what="start"))
        if n_i == 0 or N * int(np.prod(m["shape"][1:]) if len(m["shape"]) > 1 else 1) > 1 << 21:
            return
        x = gen.np_data(z)
        y = gen.np_data(out)
        if not np.all(np.isfinite(x)):
            ctx.count("skipped_nonfinite")
            return
        i = int(math.floor(te))
        frac = te - i
        E = int(np.prod(x.shape[1:])) if x.ndim > 1 else 1
        whole = (frac == 0)
        if whole and form == "samples":
            ctx.count("oracle[snippet_whole_bitwise]")
            want = x[i:i + n_i]
            if want.shape != y.shape or not np.array_equal(want, y):
                ctx.violation(o, f"whole-sample snippet(t={i}, n={n_i}) is not z[{i}:{i + n_i}] exactly", None, dict(feats, what="whole_data"))
            return
        # interpolation reference: advance by frac (within slack of an integer both the slice and the interpolation are accepted)
        ctx.count("oracle[snippet_interp]")
        fr_f = float(frac)
        if i + n_i > N - (1 if fr_f > 0 else 0) and not (slack > 0):
            pass
        ref = dsp.ref_time_shift(x, np.full(x.shape[1:], -fr_f))[i:i + n_i] if fr_f != 0 else x[i:i + n_i]
        if ref.shape != y.shape:
            # the request touches the zero-filled last sample: only possible within slack of the boundary
            ctx.count("ambiguous[interp_shape]")
            return
        norm = refdft.l2(x.reshape(N, E), axis=0)
        delta = float(slack)
        tol = (value_tol(m["dtype"], N) + math.pi * delta) * norm + 1e-300
        err = np.abs(y.reshape(n_i, E) - ref.reshape(n_i, E))
        l2err = np.sqrt(np.sum(err ** 2, axis=0))
        ctx.stat_max("interp_l2err_over_tol", float(np.max(l2err / tol)))
        if np.any(l2err > tol):
            e_ = int(np.argmax(l2err / tol))
            ctx.violation(o, f"snippet(t={float(te)!r} [{form}], n={n_i}, len={N}): samples differ from the band-limited interpolation of z at "
                             f"t+k: l2 error {l2err[e_]:.3e} > tol {tol[e_]:.3e} (= {l2err[e_] / (norm[e_] + 1e-300):.3e} ||x||_2)",
                          None, dict(feats, what="interp_data", small_fraction=bool(fr_f < 0.3 or fr_f > 0.7)))
        ctx.count("nontrivial[snippet]")


LENS = [1, 2, 16, 17, 1000, 1024, 20011, 32768]
T_KINDS = ["zero", "end", "int", "half", "eps", "one_minus_eps", "deep_small_frac", "frac"]
N_KINDS = ["0", "1", "len", "rand"]


def wl_snippet(ctx, idx, rng):
    big = ctx.tier == "thorough"
    lens = LENS + ([65536] if big else [])
    N = lens[idx % len(lens)]
    tk = T_KINDS[(idx // len(lens)) % len(T_KINDS)]
    form = (idx // (len(lens) * len(T_KINDS))) % 3
    nk = N_KINDS[int(rng.integers(4))]
    clsname = gen.pick(rng, gen.CLASS_NAMES)
    use_dask = rng.random() < 0.2
    long = N > 5000
    dtype = np.complex128 if clsname in gen.BASEBAND else gen.pick(rng, [np.float64, np.float32])
    if clsname in gen.BASEBAND and rng.random() < 0.4:
        dtype = np.complex64
    if clsname == "Signal" and rng.random() < 0.5:
        dtype = gen.pick(rng, [np.complex128, np.complex64])
    elif clsname == "Signal" and rng.random() < 0.3:
        dtype = gen.pick(rng, [np.int16, np.int8, np.int32, np.uint8])      # raw integer counts
    start = gen.rand_time(rng, p_none=0.3 if form != 2 else 0.0)
    rate = gen.rand_rate(rng, lo=0, hi=6.5 if form else 9.0)
    sig, desc = gen.make_signal(rng, clsname, N, dtype=dtype, rate=rate, start=start, dask=use_dask,
                                extra=() if long else None, nchan=1 if long else None)
    n = {"0": 0, "1": min(1, N), "len": N}.get(nk)
    if n is None:
        n = int(rng.integers(0, N + 1))
    room = N - n
    if tk == "zero":
        t = 0
    elif tk == "end":
        t = room
    elif tk == "int":
        t = int(rng.integers(0, room + 1))
    elif room < 1:
        t = room
        tk = "end"
    else:
        k = int(rng.integers(0, room))
        if tk == "half":
            t = k + 0.5
        elif tk == "eps":
            t = k + float(gen.pick(rng, [1e-3, 1e-5, 2.0 ** -20, 8e-9, 3e-9, 1e-9]))
        elif tk == "one_minus_eps":
            t = k + 1 - float(gen.pick(rng, [1e-3, 1e-5, 2.0 ** -20]))
        elif tk == "deep_small_frac":
            k = int(rng.integers(room // 2, room))
            t = k + float(gen.pick(rng, [0.125, 0.0625, 0.2, 0.03125]))
        else:
            t = float(rng.uniform(0, room))
    if form == 0:
        targ = gen.pick(rng, [t, float(t), np.float64(t)]) if isinstance(t, int) else t
    elif form == 1:
        targ = (t / sig.sample_rate).to(gen.pick(rng, [u.s, u.ms, u.us, u.min, u.ns, u.hr]))
    else:
        targ = sig.start_time + (t / sig.sample_rate)
        sc = gen.pick(rng, [None, None, "tai", "tt", "utc"])
        if sc is not None and sc != targ.scale:
            targ = getattr(targ, sc)          # the same instant expressed in another time scale
    desc.update(N=N, t=t, n=n, t_kind=tk, form=["samples", "quantity", "time"][form], n_kind=nk)
    ctx.describe_case(desc)
    ctx.sample(desc)
    before = ctx.counters["snippet_events"]
    n_py = n
    forms_n = [n, n, np.int64(n), np.int32(n), np.array(n)]
    for dt_ in (np.uint8, np.int8, np.int16, np.uint16):
        if n <= np.iinfo(dt_).max:
            forms_n.append(dt_(n))      # narrow integer types: t + n may exceed the type's own range
    n = forms_n[int(rng.integers(len(forms_n)))]
    targ_before = (np.array(targ.value, copy=True), targ.unit) if isinstance(targ, u.Quantity) else None
    small_cfg = use_dask and N >= 1000 and rng.random() < 0.5
    try:
        if small_cfg:
            import dask
            with dask.config.set({"array.chunk-size": "4KiB"}):      # a small default chunk size; the signal is one chunk along time
                out = pb.snippet(sig, targ, n)
            ctx.count("dask_small_chunk_config")
        else:
            out = pb.snippet(sig, targ, n)
    except Exception:
        out = None      # judged by the monitor
    if targ_before is not None:
        # the caller's duration object is reused for the next signal: it must still say what it said, and the request must still work
        ctx.count("oracle[duration_argument_unchanged]")
        if targ.unit != targ_before[1] or not np.array_equal(np.asarray(targ.value), targ_before[0]):
            ctx.violation("snippet", f"snippet rewrote the duration it was given: {targ_before[0]} {targ_before[1]} -> {targ!r}", None,
                          {"what": "argument_modified", "form": "quantity"})
        elif out is not None and rng.random() < 0.5:
            try:
                pb.snippet(sig, targ, n)
            except Exception:
                pass
    if (not use_dask) and out is not None and np.dtype(dtype).kind in "fc" and rng.random() < 0.3:
        # history: the signal's samples are updated in place (calibration), then the same snippet is requested again
        try:
            np.multiply(sig, 3, out=sig)
            ctx.count("history[inplace_update_between_snippets]")
        except Exception:
            pass
        else:
            try:
                pb.snippet(sig, targ, n)
            except Exception:
                pass
    if use_dask and out is not None and room >= 1:
        # two snippets of one lazy signal at different fractional offsets, evaluated in one graph
        t2 = float(rng.uniform(0, room))
        try:
            out2 = pb.snippet(sig, t2, n_py)
        except Exception:
            out2 = None
        if out2 is not None:
            monitors.joint_compute_check(ctx, "snippet_result", [out, out2], {"cls": clsname, "dask": True}, "snippets of one Dask-backed signal")
    if ctx.counters["snippet_events"] == before:
        ctx.inconclusive_because("snippet probe did not fire")
    ctx.bucket("N" + str(N if N < 5000 else "long"), tk, form, nk, np.dtype(dtype).kind, "dask" if use_dask else "np")
    # three forms denote the same instant: compare the other two forms with this one (data judged by the monitor already)


def wl_refusals(ctx, idx, rng):
    N = int(gen.pick(rng, [1, 2, 16, 1000]))
    clsname = gen.pick(rng, gen.CLASS_NAMES)
    start = gen.rand_time(rng, p_none=0.3)
    sig, desc = gen.make_signal(rng, clsname, N, rate=gen.rand_rate(rng, lo=0, hi=6), start=start)
    kind = idx % 8
    n = int(rng.integers(0, N + 1))
    room = N - n
    form = int(rng.integers(3))
    if kind == 0:
        t, nn = -float(gen.pick(rng, [1, 0.5, 1e-3])), n
    elif kind == 1:
        t, nn = room + float(gen.pick(rng, [1, 2, 10])), n                       # whole-sample overrun
    elif kind == 2:
        t, nn = room + float(gen.pick(rng, [0.5, 0.25, 0.999, 1e-3])), n         # overrun by less than one sample
    elif kind == 3:
        t, nn = float(rng.integers(0, room + 1)), -int(rng.integers(1, 4))
    elif kind == 4:
        t, nn = 0, gen.pick(rng, [1.5, 2.0, "3", None])
    elif kind == 5:
        t, nn = room - 0.5 if room >= 1 else 0, n                                # just inside: must succeed
    elif kind == 6:
        t, nn = float(N + 1), 0
    else:
        t, nn = room, n                                                          # exactly at the end: must succeed
    if form == 1:
        targ = (t / sig.sample_rate).to(u.s)
    elif form == 2:
        if sig.start_time is None:
            targ = Time(59000.0, format="mjd")
        else:
            targ = sig.start_time + (t / sig.sample_rate)
    else:
        targ = t
    desc.update(kind=kind, t=t, n=repr(nn), form=form)
    ctx.describe_case(desc)
    try:
        pb.snippet(sig, targ, nn)
    except Exception:
        pass
    ctx.bucket("refusal", kind, form, start is None)


def install_universal(ctx):
    SnippetMonitor(ctx).install()
    return probes.detach_all


def workloads(ctx):
    q = ctx.tier == "quick"
    return [("R", 1, wl_R), ("snippet", 4608 if q else 43200, wl_snippet), ("refusals", 1440 if q else 9600, wl_refusals)]


def setup(ctx):
    SnippetMonitor(ctx).install()
    return probes.detach_all


def finalize(ctx):
    for e in probes.monitor_errors():
        ctx.inconclusive_because("monitor error: " + e[:600])
    ctx.require("oracle[snippet_result]", 500, "snippet result oracle")
    ctx.require("oracle[snippet_interp]", 150, "snippet interpolation oracle")
    ctx.require("oracle[snippet_whole_bitwise]", 100, "whole-sample bitwise oracle")
    ctx.require("oracle[snippet_refusal]", 100, "snippet refusal oracle")
