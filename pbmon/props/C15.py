"""C15 - Phase ordering, reductions and decimal I/O use the full two-part value."""

import math
import re
from fractions import Fraction as F

import numpy as np
import astropy.units as u
import pulsarbat as pb
from pulsarbat import Phase

from .. import exact, gen, probes

from ..replay import wl_R

RULE = ("monitors on the comparison branch of Phase.__array_ufunc__, on min/max/argmin/argmax/sort/argsort/ptp and on to_string/"
        "__format__/from_string judge every call against the ordering / value of exact Fractions. Workload: 1-d..3-d arrays (every "
        "axis and axis=None) with ties, near-ties (0, 2^-52, 2^-50, 1e-12, straddling half-integers) at counts up to 2^52 and mixed "
        "signs; comparisons with Phases, numbers and cycle Quantities; decimal strings: optional sign x 0-16 integer digits x 0-25 "
        "fraction digits x {no point, trailing point, leading point, zero integer, zero fraction} x exponent {none, E+-k, D+-k, e} x "
        "optional j; precisions 0-18 and fixed-point format specs (sign/width/zero-pad flags). Non-trivial = a judged call; distinct "
        "= (method, axis/ndim, tie kind, count decade) / (string shape class).")
ASSUMPTIONS = [
    "an ordering is only demanded when the exact difference is 0 or >= 2^-52 cycles; smaller non-zero differences accept either answer",
    "to_string(): |Fraction(text) - value| <= 1e-16; precision d: exactly d decimals and |text - value| <= 0.5*10^-d + 1e-16 (the documented guarantee of the decimal rendering; ties either way)",
    "strings whose exact value exceeds 2^52 cycles are outside the domain",
]
BUDGET = {"quick": 100, "thorough": 900}
TOL = F(1, 2 ** 52)
COMPARISONS = {np.less: (lambda d: d < 0), np.less_equal: (lambda d: d <= 0), np.greater: (lambda d: d > 0),
               np.greater_equal: (lambda d: d >= 0), np.equal: (lambda d: d == 0), np.not_equal: (lambda d: d != 0)}
DEC_RE = re.compile(r"^[+-]?\d+(\.\d*)?j?$")


def vals_of(p):
    v, imag = exact.phase_fraction(p)
    return v, imag


def as_cycles(x):
    """Exact cycle values of a comparison operand (Phase / number / cycle Quantity)."""
    if isinstance(x, Phase):
        v, im = vals_of(x)
        return v, x.shape, im
    if isinstance(x, u.Quantity):
        if x.unit != u.cycle:
            return None
        a = np.asarray(x.value, dtype=np.float64)
        return [F(float(t)) for t in a.ravel()], a.shape, False
    a = np.asarray(x)
    if a.dtype.kind not in "fiub":
        return None
    return [F(float(t)) for t in a.astype(np.float64).ravel()], a.shape, False


def bcast(vals, shape, out_shape):
    a = np.empty(len(vals), dtype=object)
    a[:] = vals
    return np.broadcast_to(a.reshape(shape), out_shape)


class OrderMonitor:
    def __init__(self, ctx):
        self.ctx = ctx

    def install(self):
        probes.attach(Phase, "__array_ufunc__", self, "Phase.__array_ufunc__")
        for n in ("min", "max", "argmin", "argmax", "sort", "argsort", "ptp"):
            probes.attach(Phase, n, self, "Phase." + n)
        return self

    def pre(self, point, args, kwargs):
        return None

    def post(self, point, args, kwargs, tok, res, exc):
        ctx = self.ctx
        if point.name == "__array_ufunc__":
            fn, method = args[1], args[2]
            if fn not in COMPARISONS or method != "__call__":
                return
            a, b = args[3], args[4]
            va, vb = as_cycles(a), as_cycles(b)
            if va is None or vb is None or va[2] != vb[2]:
                return
            o = "compare"
            feats = {"fn": fn.__name__, "kinds": f"{type(a).__name__}/{type(b).__name__}"}
            if exc is not None:
                ctx.unexpected_exception(o, exc, f"{fn.__name__}({type(a).__name__}, {type(b).__name__})", feats)
                return
            if res is NotImplemented:
                return
            try:
                shape = np.broadcast_shapes(va[1], vb[1])
            except ValueError:
                return
            A, B = bcast(va[0], va[1], shape).ravel(), bcast(vb[0], vb[1], shape).ravel()
            got = np.asarray(res)
            if got.shape != tuple(shape) or got.dtype != np.bool_:
                ctx.violation(o, f"{fn.__name__} returned shape {got.shape} dtype {got.dtype}", None, dict(feats, what="shape"))
                return
            g = got.ravel()
            ctx.count("oracle[compare]")
            for k in range(len(A)):
                d = A[k] - B[k]
                if d != 0 and abs(d) < TOL:
                    ctx.count("ambiguous[sub_resolution]")
                    continue
                want = COMPARISONS[fn](d)
                if bool(g[k]) != want:
                    ctx.violation(o, f"{fn.__name__}: {float(A[k])!r} vs {float(B[k])!r} (exact difference {float(d):.3e} cycles) gave {bool(g[k])}",
                                  {"a": A[k], "b": B[k]}, dict(feats, what="order", tiny=bool(abs(d) < F(1, 10 ** 6))))
                    return
            ctx.count("nontrivial[order]")
            return
        # reductions
        name = point.name
        o = "reduce_" + name
        self_ = args[0]
        if exc is not None:
            ctx.unexpected_exception(o, exc, f"Phase.{name}", {"method": name})
            return
        axis = kwargs.get("axis", args[1] if len(args) > 1 else (-1 if name in ("sort", "argsort") else None))
        vals, imag = vals_of(self_)
        if imag or self_.ndim == 0:
            return
        V = np.empty(len(vals), dtype=object)
        V[:] = vals
        V = V.reshape(self_.shape)
        feats = {"method": name, "axis": str(axis), "ndim": self_.ndim}
        ctx.count(f"oracle[{o}]")

        def lanes(arr, ax):
            if ax is None:
                return arr.reshape(1, -1), None
            return np.moveaxis(arr, ax, -1).reshape(-1, arr.shape[ax]), ax

        L, ax = lanes(V, axis)
        if name in ("argmin", "argmax", "min", "max"):
            if name.startswith("arg"):
                idx = np.asarray(res).reshape(-1)
                if len(idx) != L.shape[0]:
                    ctx.violation(o, f"{name} returned {np.shape(res)} indices for {L.shape[0]} lanes", None, dict(feats, what="shape"))
                    return
                picked = [L[i, int(idx[i])] for i in range(L.shape[0])]
            else:
                if not isinstance(res, Phase):
                    ctx.violation(o, f"{name} returned {type(res).__name__}", None, dict(feats, what="type"))
                    return
                pv, _ = vals_of(res)
                if len(pv) != L.shape[0]:
                    ctx.violation(o, f"{name} returned {res.shape} for {L.shape[0]} lanes", None, dict(feats, what="shape"))
                    return
                picked = pv
                self._normalised(o, res, feats)
            for i in range(L.shape[0]):
                ext = min(L[i]) if "min" in name else max(L[i])
                d = abs(picked[i] - ext)
                if d != 0 and d < TOL:
                    ctx.count("ambiguous[sub_resolution]")
                elif d != 0:
                    ctx.violation(o, f"{name}(axis={axis}) picked {float(picked[i])!r}, exact extremum is {float(ext)!r} "
                                     f"(difference {float(d):.3e} cycles)", None, dict(feats, what="extremum", tiny=bool(d < F(1, 10 ** 6))))
                    return
                if name in ("min", "max") and picked[i] not in list(L[i]):
                    ctx.violation(o, f"{name} returned a value that is not an element", None, dict(feats, what="not_element"))
                    return
        elif name in ("sort", "argsort"):
            if name == "argsort":
                idx = np.asarray(res)
                I, _ = lanes(idx, axis if axis is not None else None)
                if I.shape != L.shape:
                    ctx.violation(o, f"argsort result shape {idx.shape}", None, dict(feats, what="shape"))
                    return
                S = [[L[i, int(j)] for j in I[i]] for i in range(L.shape[0])]
                for i in range(L.shape[0]):
                    if sorted(int(j) for j in I[i]) != list(range(L.shape[1])):
                        ctx.violation(o, "argsort is not a permutation", None, dict(feats, what="permutation"))
                        return
            else:
                if not isinstance(res, Phase):
                    ctx.violation(o, f"sort returned {type(res).__name__}", None, dict(feats, what="type"))
                    return
                self._normalised(o, res, feats)
                rv, _ = vals_of(res)
                R = np.empty(len(rv), dtype=object)
                R[:] = rv
                if axis is None:
                    R = R.reshape(1, -1)
                else:
                    if res.shape != self_.shape:
                        ctx.violation(o, f"sort changed the shape {self_.shape} -> {res.shape}", None, dict(feats, what="shape"))
                        return
                    R = np.moveaxis(R.reshape(res.shape), axis, -1).reshape(-1, res.shape[axis])
                if R.shape != L.shape:
                    ctx.violation(o, f"sort result has {R.shape} lanes/elements, input {L.shape}", None, dict(feats, what="shape"))
                    return
                S = [list(R[i]) for i in range(R.shape[0])]
                for i in range(L.shape[0]):
                    if sorted(S[i]) != sorted(L[i]):
                        ctx.violation(o, "sort result is not a permutation of the input", None, dict(feats, what="permutation"))
                        return
            for i, lane in enumerate(S):
                for j in range(1, len(lane)):
                    d = lane[j] - lane[j - 1]
                    if d < 0 and -d >= TOL:
                        ctx.violation(o, f"{name}(axis={axis}): element {float(lane[j - 1])!r} placed before {float(lane[j])!r} "
                                         f"(exact difference {float(-d):.3e} cycles)", None,
                                      dict(feats, what="order", tiny=bool(-d < F(1, 10 ** 6))))
                        return
                    if d < 0:
                        ctx.count("ambiguous[sub_resolution]")
        elif name == "ptp":
            if not isinstance(res, Phase):
                ctx.violation(o, f"ptp returned {type(res).__name__}", None, dict(feats, what="type"))
                return
            pv, _ = vals_of(res)
            if len(pv) != L.shape[0]:
                ctx.violation(o, "ptp result shape", None, dict(feats, what="shape"))
                return
            for i in range(L.shape[0]):
                want = max(L[i]) - min(L[i])
                if abs(pv[i] - want) > 3 * TOL:
                    ctx.violation(o, f"ptp = {float(pv[i])!r}, exact max-min = {float(want)!r}", None, dict(feats, what="ptp"))
                    return
        ctx.count("nontrivial[order]")

    def _normalised(self, o, p, feats):
        v = np.asarray(p.view(np.ndarray))
        if np.any(v["int"] != np.floor(v["int"])) or np.any(np.abs(v["frac"]) > 0.5):
            self.ctx.violation(o, "result is not normalised", None, dict(feats, what="unnormalised"))


class StringMonitor:
    def __init__(self, ctx):
        self.ctx = ctx

    def install(self):
        probes.attach(Phase, "to_string", self, "Phase.to_string")
        probes.attach(Phase, "__format__", self, "Phase.__format__")
        probes.attach(Phase, "from_string", self, "Phase.from_string")
        return self

    def pre(self, point, args, kwargs):
        return None

    def post(self, point, args, kwargs, tok, res, exc):
        ctx = self.ctx
        name = point.name
        if name == "from_string":
            self.post_from(args, kwargs, res, exc)
            return
        p = args[0]
        vals, imag = vals_of(p)
        if name == "to_string":
            names = ["unit", "decimal", "sep", "precision", "alwayssign", "pad", "fields", "format"]
            a = dict(zip(names, args[1:]))
            a.update(kwargs)
            if not a.get("decimal", True) or a.get("unit") not in (None, u.cycle) or a.get("format") is not None or a.get("pad"):
                return
            prec = a.get("precision")
            o = "to_string"
            if exc is not None:
                ctx.unexpected_exception(o, exc, f"to_string(precision={prec})", {"precision": prec})
                return
            texts = [str(t) for t in np.atleast_1d(np.asarray(res)).ravel()]
            if len(texts) != len(vals):
                ctx.violation(o, "to_string returned a different number of strings", None, {"what": "shape"})
                return
            ctx.count("oracle[to_string]")
            for t, v in zip(texts, vals):
                self.judge_text(o, t, v, imag, prec, bool(a.get("alwayssign")), {"precision": prec})
        else:
            spec = args[1]
            if not spec.endswith("f") or p.ndim != 0:
                return
            m = re.match(r"^(?P<fill>.?[<>=^])?(?P<sign>[+\- ])?(?P<zero>0)?(?P<width>\d+)?(\.(?P<prec>\d+))?f$", spec)
            if not m or m.group("fill"):
                return
            o = "format"
            prec = int(m.group("prec")) if m.group("prec") is not None else 6
            if exc is not None:
                ctx.unexpected_exception(o, exc, f"format(phase, {spec!r})", {"spec": spec})
                return
            ctx.count("oracle[format]")
            t = str(res)
            width = int(m.group("width") or 0)
            if len(t) < width:
                ctx.violation(o, f"format(phase, {spec!r}) = {t!r} is shorter than the requested width", None, {"what": "width", "spec": spec})
            body = t.strip()
            if m.group("zero") and width:
                sgn = body[0] if body[:1] in "+-" else ""
                body = sgn + (body[len(sgn):].lstrip("0") or "0")
                if body[len(sgn):].startswith("."):
                    body = sgn + "0" + body[len(sgn):]
            self.judge_text(o, body, vals[0], imag, prec, m.group("sign") == "+", {"spec": spec})

    def judge_text(self, o, t, v, imag, prec, alwayssign, feats):
        ctx = self.ctx
        if not DEC_RE.match(t):
            ctx.violation(o, f"rendered {t!r} is not a plain decimal (value {float(v)!r})", None, dict(feats, what="malformed"))
            return
        if t.endswith("j") != bool(imag):
            ctx.violation(o, f"rendered {t!r} for an {'imaginary' if imag else 'real'} phase", None, dict(feats, what="j_suffix"))
            return
        body = t[:-1] if t.endswith("j") else t
        got = F(body)
        if prec is None:
            if abs(got - v) > F(1, 10 ** 16):
                # mechanism feature: the complement step `frac += 1` for fractions below zero rounds by up to 2^-54 and the shortest
                # repr by up to 2^-54 more, so the worst case of the documented "within 1e-16" is 2^-53 = 1.11e-16
                ctx.violation(o, f"to_string() = {t!r} differs from the exact value {float(v)!r} by {float(abs(got - v)):.3e} > 1e-16", None,
                              dict(feats, what="value", within_two_roundings=bool(abs(got - v) <= F(1, 2 ** 53) + F(1, 10 ** 18))))
        else:
            dec = body.partition(".")[2]
            if len(dec) != prec:
                ctx.violation(o, f"{t!r} has {len(dec)} decimals, {prec} requested", None, dict(feats, what="ndecimals"))
                return
            if abs(got - v) > F(1, 2 * 10 ** prec) + F(1, 10 ** 16):
                ctx.violation(o, f"{t!r} is not the exact value {float(v)!r} rounded to {prec} decimals (off by {float(abs(got - v)):.3e})",
                              None, dict(feats, what="rounding", negative=bool(v < 0), small=bool(abs(v) < 1)))
                return
        # sign
        if v < 0 and got != 0 and not body.startswith("-"):
            ctx.violation(o, f"{t!r} lost the sign of {float(v)!r}", None, dict(feats, what="sign"))
        if alwayssign and v >= 0 and not body.startswith("+") and got != 0:
            ctx.violation(o, f"{t!r} lacks the requested '+' sign", None, dict(feats, what="plus_sign"))
        ctx.count("nontrivial[string]")

    def post_from(self, args, kwargs, res, exc):
        ctx = self.ctx
        o = "from_string"
        s = args[1] if len(args) > 1 else kwargs.get("string")
        arr = np.atleast_1d(np.asarray(s))
        if arr.dtype.kind not in "SU":
            return
        strs = [x.decode() if isinstance(x, bytes) else str(x) for x in arr.ravel()]
        want, imags = [], []
        for t in strs:
            w = parse_decimal(t)
            if w is None:
                return
            want.append(w[0])
            imags.append(w[1])
        if any(abs(w) > 2 ** 52 for w in want):
            return
        feats = {"n": len(strs)}
        if exc is not None:
            if len(set(imags)) == 1:
                ctx.unexpected_exception(o, exc, f"from_string({strs[0]!r}{'...' if len(strs) > 1 else ''})",
                                         dict(feats, what="raised", shape_class=shape_class(strs[0])))
            return
        ctx.count("oracle[from_string]")
        if not isinstance(res, Phase):
            ctx.violation(o, f"from_string returned {type(res).__name__}", None, dict(feats, what="type"))
            return
        got, gimag = vals_of(res)
        if len(got) != len(want):
            ctx.violation(o, "from_string: wrong number of elements", None, dict(feats, what="shape"))
            return
        if len(set(imags)) == 1 and bool(gimag) != imags[0] and any(w != 0 for w in want):
            ctx.violation(o, f"from_string({strs[0]!r}) gave an {'imaginary' if gimag else 'real'} phase", None, dict(feats, what="imag"))
            return
        if not imags[0] and gimag:
            ctx.violation(o, f"a real string ({strs[0]!r}) yielded an imaginary phase", None, dict(feats, what="imag_zero"))
            return
        for t, g, w in zip(strs, got, want):
            if abs(g - w) > TOL:
                ctx.violation(o, f"from_string({t!r}) = {float(g)!r}, exact {float(w)!r}: error {float(abs(g - w)):.3e} cycles", None,
                              dict(feats, what="value", shape_class=shape_class(t)))
                return
        v = np.asarray(res.view(np.ndarray))
        if np.any(v["int"] != np.floor(v["int"])) or np.any(np.abs(v["frac"]) > 0.5):
            ctx.violation(o, "from_string result is not normalised", None, dict(feats, what="unnormalised"))
        ctx.count("nontrivial[string]")


def parse_decimal(t):
    """Exact value of a plain decimal string in any accepted spelling -> (Fraction, imaginary) or None."""
    s = t.strip().lower().replace("d", "e")
    imag = s.endswith("j")
    if imag:
        s = s[:-1]
    if not re.match(r"^[+-]?(\d+\.?\d*|\.\d+)(e[+-]?\d+)?$", s):
        return None
    mant, _, ex = s.partition("e")
    try:
        v = F(mant if not mant.endswith(".") else mant + "0") if not mant.lstrip("+-").startswith(".") else F(mant.replace(".", "0.", 1))
    except Exception:
        return None
    if ex:
        v = v * F(10) ** int(ex)
    return v, imag


def shape_class(t):
    s = t.strip().lower().replace("d", "e")
    body = s.rstrip("j").lstrip("+-")
    mant, _, ex = body.partition("e")
    ip, dot, fp = mant.partition(".")
    return "|".join([
        "nopoint" if not dot else ("trailpoint" if fp == "" else ("leadpoint" if ip == "" else "point")),
        "zeroint" if ip.strip("0") == "" else "int",
        "zerofrac" if fp.strip("0") == "" else "frac",
        "noexp" if not ex else ("negexp" if ex.startswith("-") else "posexp"),
        "j" if s.endswith("j") else "real",
    ])


# ------------------------------------------------------------------------------------------------
DECADES = [0, 2, 5, 9, 12, 15, "2^52"]
TIES = ["none", "exact", "2^-52", "2^-50", "1e-12", "half_straddle", "subulp_pair"]


def count_of(rng, dec):
    if dec == "2^52":
        return float(2 ** 52 - 2 - int(rng.integers(0, 1000)))
    if dec == 0:
        return float(rng.integers(0, 4))
    return float(int(10 ** rng.uniform(dec - 1, dec)))


def make_array(rng, shape, dec, tie):
    n = int(np.prod(shape))
    base = count_of(rng, dec)
    sign = float(gen.pick(rng, [1, 1, -1]))
    c = np.array([base + float(rng.integers(-2, 3)) for _ in range(n)]) * sign
    f = rng.uniform(-0.5, 0.5, size=n)
    if n >= 2 and tie != "none":
        i, j = (int(v) for v in rng.choice(n, size=2, replace=False))
        if tie == "exact":
            c[j], f[j] = c[i], f[i]
        elif tie in ("2^-52", "2^-50", "1e-12"):
            dlt = {"2^-52": 2.0 ** -52, "2^-50": 2.0 ** -50, "1e-12": 1e-12}[tie]
            f[i] = float(rng.uniform(-0.4, 0.4))
            c[j], f[j] = c[i], f[i] + dlt
        elif tie == "half_straddle":
            e = float(gen.pick(rng, [1e-9, 1e-12, 2.0 ** -40]))
            c[i], f[i] = c[i], 0.5 - e           # = c + 0.5 - e
            c[j], f[j] = c[i] + 1.0, -0.5 + e     # = c + 0.5 + e
        else:  # sub-ulp pair with different counts: (N, 0.3) vs (N+1, -0.7 + 2^-45)
            c[j], f[i] = c[i] + 1.0, 0.3
            f[j] = -0.4
            c[i], f[i] = c[i], 0.4 + 0.2 - float(gen.pick(rng, [2.0 ** -45, 2.0 ** -48, 0.0]))   # = N + 0.6 - d vs N + 0.6
    with probes.quiet():
        p = as_view(rng, c.reshape(shape), f.reshape(shape), Phase)
    return p


def as_view(rng, c, f, Phase, imaginary=False):
    """The phase array either built directly or obtained as a view of another phase array (strided slice, transpose, reversed):
    the same values through another memory history."""
    k = 1j if imaginary else 1
    how = int(gen._side_rng(rng).integers(8))
    if c.ndim == 0 or how > 2:
        return Phase(c * k, f * k)
    if how == 0:      # every other element of a twice-as-long last axis
        big_c = np.repeat(c, 2, axis=-1) + 17.0
        big_f = np.repeat(f, 2, axis=-1) * 0.5
        big_c[..., ::2], big_f[..., ::2] = c, f
        return Phase(big_c * k, big_f * k)[..., ::2]
    if how == 1:      # transpose of the transposed data
        return Phase(np.ascontiguousarray(c.T) * k, np.ascontiguousarray(f.T) * k).T
    return Phase(c[::-1].copy() * k, f[::-1].copy() * k)[::-1]


def wl_order(ctx, idx, rng):
    dec = DECADES[idx % len(DECADES)]
    tie = TIES[(idx // len(DECADES)) % len(TIES)]
    shape = gen.pick(rng, [(2,), (5,), (9,), (3, 4), (4, 2), (2, 3, 2)])
    p = make_array(rng, shape, dec, tie)
    method = ["min", "max", "argmin", "argmax", "sort", "argsort", "ptp", "compare"][(idx // (len(DECADES) * len(TIES))) % 8]
    axis = gen.pick(rng, [None] + list(range(-len(shape), len(shape))))
    desc = {"count_decade": dec, "tie": tie, "shape": list(shape), "method": method, "axis": axis, "phase": repr(p)[:160]}
    ctx.describe_case(desc)
    ctx.sample(desc, limit=8)
    o = "order"
    if method == "compare":
        q = make_array(rng, shape, dec, "none")
        with probes.quiet():
            # make some elements equal / nearly equal to p's
            v = np.asarray(p.view(np.ndarray)).copy()
            w = np.asarray(q.view(np.ndarray)).copy()
            k = int(rng.integers(v.size))
            w.reshape(-1)[k] = v.reshape(-1)[k]
            if v.size > 1:
                k2 = (k + 1) % v.size
                w.reshape(-1)[k2] = v.reshape(-1)[k2]
                w["frac"].reshape(-1)[k2] += float(gen.pick(rng, [2.0 ** -52, -2.0 ** -50, 1e-12, 2.0 ** -53 * 0]))
            q = Phase(w["int"], w["frac"])
        opn = gen.pick(rng, ["lt", "le", "gt", "ge", "eq", "ne"])
        import operator
        other = gen.pick(rng, [q, q, float(v["int"].reshape(-1)[0]), (v["int"].reshape(-1)[0] + 0.25) * u.cycle])
        ctx.call(o, getattr(operator, opn), p, other, where=f"{opn}")
        if not isinstance(other, Phase):
            ctx.call(o, getattr(operator, opn), other, p, where=f"reflected {opn}")
        # the comparison ufuncs called directly, in both operand orders (no operator reflection by Python)
        uf = {"lt": np.less, "le": np.less_equal, "gt": np.greater, "ge": np.greater_equal, "eq": np.equal, "ne": np.not_equal}[opn]
        oth2 = other if isinstance(other, (Phase, u.Quantity)) else other * u.cycle
        ctx.call(o, uf, oth2, p, where=f"np.{uf.__name__}(other, phase)")
        ctx.call(o, uf, p, oth2, where=f"np.{uf.__name__}(phase, other)")
        # the same comparison written into a caller-provided boolean array
        try:
            shp_ = np.broadcast_shapes(np.shape(p), np.shape(oth2))
        except ValueError:
            shp_ = None
        if shp_ is not None:
            mask = np.zeros(shp_, dtype=bool)
            r_, e_ = ctx.call(o, uf, p, oth2, where=f"np.{uf.__name__}(phase, other, out=mask)", out=mask)
            if e_ is None and r_ is not mask:
                ctx.violation(o, f"np.{uf.__name__}(..., out=mask) did not return the given array", None, {"what": "out_identity"})
            mask2 = np.ones(shp_, dtype=bool)
            ctx.call(o, uf, oth2, p, where=f"np.{uf.__name__}(other, phase, out=mask)", out=(mask2,))
    elif method in ("sort", "argsort"):
        kw = {} if axis == -1 and rng.random() < 0.5 else {"axis": axis}
        ctx.call(o, getattr(p, method), where=method, **kw)
    else:
        form = int(rng.integers(3))
        if form == 0:
            ctx.call(o, getattr(p, method), axis, where=method)
        elif form == 1:
            ctx.call(o, getattr(p, method), where=method, axis=axis)
        else:
            ctx.call(o, getattr(p, method), where=method)
        if method in ("min", "max", "ptp") and axis is not None and rng.random() < 0.3:
            r, exc = ctx.call(o, getattr(p, method), axis, where=method + " keepdims", keepdims=True)
            if exc is None and r.ndim != p.ndim:
                ctx.violation(o, f"{method}(keepdims=True) dropped a dimension", None, {"what": "keepdims"})
    ctx.bucket(method, len(shape), str(axis), tie, dec)


def rand_digits(rng, n):
    return "".join(str(int(d)) for d in rng.integers(0, 10, size=n)) if n else ""


def make_string(rng):
    sign = gen.pick(rng, ["", "", "-", "+"])
    ni = int(gen.pick(rng, [0, 1, 1, 2, 5, 11, 15]))
    nf = int(gen.pick(rng, [0, 0, 1, 2, 6, 12, 18, 25]))
    ip = rand_digits(rng, ni)
    fp = rand_digits(rng, nf)
    if rng.random() < 0.2:
        ip = "0" * max(1, ni)
    if rng.random() < 0.15 and nf:
        fp = "0" * nf
    form = int(rng.integers(5))
    if ip == "" and fp == "":
        ip = "0"
    if form == 0 or (fp == "" and ip != ""):
        mant = ip if fp == "" and rng.random() < 0.6 else (ip or "0") + "." + fp
    elif form == 1 and ip == "":
        mant = "." + fp
    else:
        mant = (ip or "0") + "." + fp
    ex = ""
    if rng.random() < 0.45:
        e = int(rng.integers(-9, 6))
        ex = gen.pick(rng, ["e", "E", "d", "D"]) + gen.pick(rng, ["", "+"] if e >= 0 else [""]) + str(e)
    j = "j" if rng.random() < 0.12 else ""
    return sign + mant + ex + j


def wl_strings(ctx, idx, rng):
    o = "from_string"
    if idx % 5 == 4:
        strs = [make_string(rng).rstrip("j") for _ in range(int(rng.integers(2, 5)))]
        arg = np.array(strs).reshape(-1) if rng.random() < 0.7 else strs
    else:
        strs = [make_string(rng)]
        arg = strs[0]
    w = [parse_decimal(s) for s in strs]
    desc = {"strings": strs}
    ctx.describe_case(desc)
    ctx.sample(desc, limit=10)
    if any(x is None or abs(x[0]) > 2 ** 52 for x in w):
        ctx.count("out_of_domain_strings")
        return
    res, exc = ctx.call(o, Phase.from_string, arg, expect="any", where="from_string")   # judged by the monitor
    for s in strs:
        ctx.bucket("str", shape_class(s))


def wl_render(ctx, idx, rng):
    dec = DECADES[idx % len(DECADES)]
    c = count_of(rng, dec) * float(gen.pick(rng, [1, 1, -1]))
    fk = idx // len(DECADES) % 6
    f = [float(rng.uniform(-0.5, 0.5)), 0.0, float(gen.pick(rng, [0.5, -0.5, 0.25])), float(10.0 ** rng.uniform(-20, -3)) * float(gen.pick(rng, [1, -1])),
         float(gen.pick(rng, [0.2, 0.04, 0.06, 0.96 - 1, 0.24999, 0.3, -0.3, -0.04])), float(round(rng.uniform(-0.5, 0.5), int(rng.integers(1, 8))))][fk]
    if rng.random() < 0.2:
        c = 0.0
    imag = rng.random() < 0.08
    with probes.quiet():
        p = Phase(np.array(c * 1j), np.array(f * 1j)) if imag else Phase(np.array(c), np.array(f))
        exact_v, _ = vals_of(p)
    desc = {"count": c, "frac": f, "imag": imag}
    ctx.describe_case(desc)
    ctx.sample(desc, limit=6)
    o = "render"
    form = int(rng.integers(4))
    prec = int(rng.integers(0, 19))
    ukw = {}
    if rng.random() < 0.3:
        # the unit spelled out: any spelling of "cycle" is the exact two-double rendering
        import pickle
        ukw["unit"] = gen.pick(rng, [u.cycle, "cycle", "cy", u.Unit("cycle"), (u.cycle / u.s * u.s), pickle.loads(pickle.dumps(u.cycle)),
                                     (1.0 * u.cycle).unit])
    if form == 0:
        s, exc = ctx.call(o, p.to_string, where=f"to_string({ukw})", **ukw)
        if exc is None:
            # round trip
            back, e2 = ctx.call(o, Phase.from_string, str(s), where="from_string(to_string(p))")
            if e2 is None:
                ctx.count("oracle[roundtrip]")
                bv, bim = vals_of(back)
                if abs(bv[0] - exact_v[0]) > F(1, 2 ** 52) or (bool(bim) != imag and bv[0] != 0):
                    ctx.violation(o, f"from_string(to_string(p)) = {float(bv[0])!r} != p = {float(exact_v[0])!r} (text {s!r})", None,
                                  {"what": "roundtrip"})
    elif form == 1:
        ctx.call(o, p.to_string, where=f"to_string(precision, {ukw})", precision=prec, alwayssign=bool(rng.integers(2)), **ukw)
    elif form == 2 and not imag:
        spec = gen.pick(rng, ["", "+", " "]) + gen.pick(rng, ["", "", "0"]) + gen.pick(rng, ["", "", str(int(rng.integers(1, 30)))]) + f".{prec}f"
        if spec.startswith(" "):
            spec = spec[1:]
        ctx.call(o, format, p, spec, where=f"format({spec!r})")
        desc["spec"] = spec
    else:
        with probes.quiet():
            arr = Phase(np.array([c, -c, c + 1]), np.array([f, f, -f]))
        ctx.call(o, arr.to_string, where="array to_string", precision=gen.pick(rng, [None, prec]))
    ctx.bucket("render", form, dec, fk, prec if form in (1, 2) else -1)


def install_universal(ctx):
    OrderMonitor(ctx).install()
    StringMonitor(ctx).install()
    return probes.detach_all


def workloads(ctx):
    q = ctx.tier == "quick"
    base = len(DECADES) * len(TIES) * 8
    return [("R", 1, wl_R), ("order", base * (12 if q else 60), wl_order), ("strings", 7500 if q else 60000, wl_strings),
            ("render", 6000 if q else 40000, wl_render)]


def setup(ctx):
    OrderMonitor(ctx).install()
    StringMonitor(ctx).install()
    return probes.detach_all


def finalize(ctx):
    for e in probes.monitor_errors():
        ctx.inconclusive_because("monitor error: " + e[:600])
    ctx.require("oracle[compare]", 100, "comparison oracle")
    for m in ("min", "max", "argmin", "argmax", "sort", "argsort", "ptp"):
        ctx.require(f"oracle[reduce_{m}]", 60, f"{m} oracle")
    ctx.require("oracle[from_string]", 500, "from_string oracle")
    ctx.require("oracle[to_string]", 300, "to_string oracle")
    ctx.require("oracle[format]", 100, "format oracle")
    ctx.require("oracle[roundtrip]", 100, "round-trip oracle")
