"""C14 - no operation modifies the signal or arguments it is given."""

import operator

import numpy as np
import astropy.units as u
from astropy.time import Time
import dask.array as da
import pulsarbat as pb

from .. import exact, gen, probes, monitors, inject, snapshot
from ..ops import op_points

from ..replay import wl_R

RULE = ("byte-wise snapshots (sample buffer through its strides, dtype, shape, every metadata attribute, deep copy of meta, every array / "
        "Quantity / Time / list argument) taken at entry of every public operation (31 probe points, also for internal calls) and "
        "compared at exit, normal or exceptional. Workload: op table (slices, ufuncs, conversions, container helpers, concatenate, "
        "snippet, time_shift incl. near-zero and array shifts, freq_shift incl. caller-held Hz arrays, fast_len, dedispersion with "
        "supplied chirps/ref_freq, STFT/ISTFT, readers) x writable buffers {C, Fortran, strided, negative stride, offset view} x all "
        "classes x valid and invalid arguments; histories in which one root signal feeds many operations (root compared at the end); "
        "failpoints at every statement boundary inside each operation on small inputs. Non-trivial = a snapshot comparison of at "
        "least one array-backed argument; distinct = (operation, class, memory layout, argument kind).")
ASSUMPTIONS = [
    "the signal named by out= / the left operand of an in-place operator is exempt for its data only (its metadata must stay)",
    "Dask-backed inputs are compared through graph name, chunks and dtype",
]
BUDGET = {"quick": 110, "thorough": 1200}
LEVEL = "fault_enumeration"


class SnapshotMonitor:
    def __init__(self, ctx):
        self.ctx = ctx

    def install(self):
        for owner, name, label in op_points():
            probes.attach(owner, name, self, label)
        for cls in monitors.SIGNAL_INIT_CLASSES:
            probes.attach(cls, "__init__", self, f"{cls.__name__}.__init__")
        return self

    def pre(self, point, args, kwargs):
        skip_self = point.name == "__init__"
        items = []
        for i, a in enumerate(args):
            if skip_self and i == 0:
                continue
            items.append((f"arg{i}", a, snapshot.snap(a)))
        for k, v in kwargs.items():
            items.append((f"kw:{k}", v, snapshot.snap(v)))
        return items

    def post(self, point, args, kwargs, items, res, exc):
        ctx = self.ctx
        if items is None:
            return
        exempt = set()
        if point.name == "__array_ufunc__":
            out = kwargs.get("out")
            if out is not None:
                for o in out:
                    if o is not None:
                        exempt.add(id(o))
        ctx.count("snapshot_comparisons")
        tracked = False
        for name, obj, before in items:
            if name == "kw:out":
                continue
            after = snapshot.snap(obj)
            if isinstance(before, dict) or (isinstance(before, tuple) and before and before[0] in ("ndarray", "quantity", "time", "list", "tuple")):
                tracked = True
            if id(obj) in exempt and isinstance(before, dict):
                before = {k: v for k, v in before.items() if k not in ("data", "data_id")}
                after = {k: v for k, v in after.items() if k not in ("data", "data_id")}
            d = snapshot.describe_diff(before, after, name)
            if d:
                what = "buffer" if "bytes" in d or ".data" in d else "metadata" if isinstance(before, dict) else "argument"
                ctx.violation("no_mutation", f"{point.label} modified its input: {d}"
                                             f"{' (the call raised ' + type(exc).__name__ + ')' if exc is not None else ''}",
                              {"probe": point.label}, {"op": point.label, "what": what, "raised": exc is not None})
        if tracked:
            ctx.count("oracle[no_mutation]")
            ctx.count(f"events[{point.label}]")


# ------------------------------------------------------------------------------------------------
# op table
# ------------------------------------------------------------------------------------------------
def near_zero(rng, shape=()):
    v = gen.pick(rng, [1e-10, -1e-10, 0.1 + 0.2 - 0.3, -3e-9, 5e-9, 1e-13])
    if shape:
        return np.full(shape, v) * rng.choice([1, -1], size=shape)
    return v


def build_ops(sig, rng):
    """List of (label, argkind, thunk) applicable to sig. Thunks keep references to their argument objects (caller-held)."""
    ops = []
    n = len(sig)
    ss = sig.sample_shape
    sr = sig.sample_rate

    def add(label, kind, fn):
        ops.append((label, kind, fn))

    a = int(rng.integers(0, n + 1))
    b = int(rng.integers(a, n + 1))
    add("getitem", "slice", lambda: sig[a:b])
    add("getitem_step", "slice", lambda: sig[a::2])
    add("getitem_bad", "invalid", lambda: sig[1])
    add("ufunc_add", "scalar", lambda: sig + 1)
    other = np.ones(sig.shape, dtype=sig.dtype)
    add("ufunc_arr", "array", lambda: np.multiply(other, sig))
    add("ufunc_neg", "none", lambda: -sig)
    # masked evaluation without out=: only the result is written, never the operand
    msk = rng.random(sig.shape) < 0.5
    add("ufunc_where_array", "array", lambda: np.multiply(sig, 10, where=msk))
    if sig.dtype.kind == "f":
        add("ufunc_where_signal", "signal", lambda: np.add(sig, 1.0, where=sig > 0))
    add("asarray", "none", lambda: np.asarray(sig))
    # np.array() promises its caller a private copy: the caller then edits that copy in place (judged by the history check)
    akw = [{}, {"dtype": sig.dtype}, {"dtype": sig.dtype, "copy": True}, {"copy": True}, {"dtype": np.dtype(sig.dtype).newbyteorder("=")}]
    kw_ = akw[int(rng.integers(len(akw)))]

    def array_then_edit():
        r = np.array(sig, **kw_)
        r *= 0
        r += 1
        return r
    add("np_array_copy_then_edit", "none", array_then_edit)
    for name in ("compute", "persist", "to_dask_array", "rechunk"):
        add(name, "none", (lambda nm: (lambda: getattr(sig, nm)()))(name))
    add("like", "none", lambda: type(sig).like(sig))
    if n >= 2:
        c = int(rng.integers(1, n))
        p1, p2 = sig[:c], sig[c:]
        lst = [p1, p2]
        add("concatenate", "list", lambda: pb.concatenate(lst))
        # pieces annotated differently (each block carries its own notes): the inputs keep their own meta, whatever the result gets
        pa = type(p1).like(p1, meta={"block": 0, "notes": {"a": 1}})
        pb_ = type(p2).like(p2, meta={"block": 1, "flags": [1, 2], "notes": {"b": 2}})
        lst2 = [pa, pb_]
        add("concatenate_metas", "list", lambda: pb.concatenate(lst2))
        add("concatenate_bad", "invalid", lambda: pb.concatenate([p2, p1]))
    if n >= 1:
        k = int(rng.integers(0, n + 1))
        t = float(rng.uniform(0, n - k)) if n - k > 0 else 0.0
        add("snippet_frac", "float", lambda: pb.snippet(sig, t, k))
        tq = (t / sr).to(u.s)
        add("snippet_q", "quantity", lambda: pb.snippet(sig, tq, k))
        add("snippet_bad", "invalid", lambda: pb.snippet(sig, n + 2.5, 1))
        # the offset as a caller-held 0-d array (an entry of a table of offsets)
        table = np.array([t, 0.0])
        t0d = table[0:1].reshape(())
        add("snippet_0d_array", "array0d", lambda: pb.snippet(sig, t0d, k))
        ti0d = np.array(int(t))
        add("snippet_0d_int_array", "array0d", lambda: pb.snippet(sig, ti0d, min(k, n - int(t))))
        if n >= 2:
            # offsets a few 1e-9 samples past a whole sample (time_shift treats such shifts as zero and returns its argument)
            k2 = int(rng.integers(0, n - 1))
            tiny = float(gen.pick(rng, [8e-9, 3e-9, 1e-9, 5e-9]))
            add("snippet_tinyfrac", "nearzero", lambda: pb.snippet(sig, k2 + tiny, 1))
            if sig.start_time is not None:
                tt_ = sig.start_time + ((k2 + tiny) / sr)
                add("snippet_tinyfrac_time", "nearzero", lambda: pb.snippet(sig, tt_, 1))
            tq_ = ((k2 + tiny) / sr).to(u.s)
            add("snippet_tinyfrac_q", "nearzero", lambda: pb.snippet(sig, tq_, 1))
        sh_arr = rng.uniform(-2, 2, size=ss) if ss else float(rng.uniform(-2, 2))
        add("time_shift_arr", "array", lambda: pb.time_shift(sig, sh_arr, crop=bool(rng.integers(2))))
        nz = near_zero(rng)
        add("time_shift_nearzero", "nearzero", lambda: pb.time_shift(sig, nz, crop=bool(rng.integers(2))))
        if ss:
            nza = near_zero(rng, ss[:1])
            add("time_shift_nearzero_arr", "nearzero_array", lambda: pb.time_shift(sig, nza))
        if ss and ss[0] > 1:
            mixed = rng.uniform(0.5, 2, size=ss[:1])
            mixed[int(rng.integers(ss[0]))] = float(gen.pick(rng, [5.5e-17, -3e-12, 1e-9, 8e-9]))
            add("time_shift_mixed_tiny", "array_mixed_tiny", lambda: pb.time_shift(sig, mixed, crop=bool(rng.integers(2))))
            big = np.zeros((ss[0], 2))
            big[:, 0] = mixed
            view = big[:, 0]
            add("time_shift_mixed_tiny_view", "array_mixed_tiny", lambda: pb.time_shift(sig, view))
            wrong = np.concatenate([mixed, [1e-12, 2.0]])
            add("time_shift_mixed_tiny_bad_shape", "invalid", lambda: pb.time_shift(sig, wrong))
        shq = (np.atleast_1d(np.asarray(sh_arr, dtype=float)).ravel()[:1] / sr).to(u.s)
        add("time_shift_q", "quantity", lambda: pb.time_shift(sig, shq[0]))
        lst_shift = [0.5] * ss[0] if ss else 0.5
        add("time_shift_list", "list", lambda: pb.time_shift(sig, lst_shift))
        add("time_shift_bad", "invalid", lambda: pb.time_shift(sig, np.ones((1,) * (len(ss) + 1))))
    add("fast_len", "none", lambda: pb.fast_len(sig))
    tprobe = Time(59000.0, format="mjd") if sig.start_time is None else sig.start_time + (0.5 / sr)
    add("contains", "time", lambda: sig.contains(tprobe))
    if isinstance(sig, pb.RadioSignal):
        nch = sig.shape[1]
        add("freq_slice", "slice", lambda: sig[:, 0:max(1, nch - 1)])
        dm = pb.DispersionMeasure(float(rng.uniform(-1e-3, 1e-3)))
        ref = sig.center_freq * 1.01
        fq = sig.channel_freqs
        add("time_delay", "quantity_array", lambda: dm.time_delay(fq, ref))
        add("sample_delay", "quantity_array", lambda: dm.sample_delay(fq, ref, sr))
        if n >= 4 and float(sig.min_freq.to_value(u.Hz)) > 0:
            add("incoherent", "dm", lambda: pb.incoherent_dedispersion(sig, dm, ref_freq=ref))
            add("incoherent_default", "dm", lambda: pb.incoherent_dedispersion(sig, dm))
    if isinstance(sig, pb.BasebandSignal) and n >= 1:
        # caller-held frequency arrays in the native unit (Hz / 1/s) and in other units
        hz_arr = (rng.uniform(-0.3, 0.3, size=ss[:1]) * float(sr.to_value(u.Hz))) * u.Hz
        add("freq_shift_hz_array", "quantity_array_native", lambda: pb.freq_shift(sig, hz_arr))
        inv_s = (rng.uniform(-0.3, 0.3, size=ss[:1]) * float(sr.to_value(u.Hz))) / u.s
        add("freq_shift_per_s_array", "quantity_array_native", lambda: pb.freq_shift(sig, inv_s))
        khz = (0.2 * sr).to(u.kHz)
        add("freq_shift_scalar", "quantity", lambda: pb.freq_shift(sig, khz))
        table = np.vstack([hz_arr.value, hz_arr.value * 0.5]) * u.Hz
        add("freq_shift_row", "quantity_array_native", lambda: pb.freq_shift(sig, table[1]))
        add("freq_shift_bad", "invalid", lambda: pb.freq_shift(sig, 3 * u.s))
        add("to_intensity", "none", lambda: sig.to_intensity())
        if float(sig.min_freq.to_value(u.Hz)) > 0 and n >= 4:
            dm2 = pb.DispersionMeasure(float(rng.uniform(-1e-3, 1e-3)))
            ref2 = sig.center_freq
            add("coherent", "dm", lambda: pb.coherent_dedispersion(sig, dm2, ref_freq=ref2))
            with probes.quiet():
                chirp = dm2.chirp_from_signal(sig)
            if isinstance(chirp, np.ndarray):
                chirp = chirp.copy()
            add("coherent_chirp", "array", lambda: pb.coherent_dedispersion(sig, dm2, chirp=chirp))
            add("chirp_from_signal", "dm", lambda: dm2.chirp_from_signal(sig, ref_freq=ref2))
        if n >= 4:
            P = int(gen.pick(rng, [1, 2, 4]))
            add("stft", "int", lambda: pb.contrib.stft(sig, nperseg=P))
            if sig.shape[1] % P == 0:
                add("istft", "int", lambda: pb.contrib.istft(sig, nperseg=P))
    if isinstance(sig, pb.DualPolarizationSignal):
        for nm in ("to_linear", "to_circular", "to_stokes"):
            add(nm, "none", (lambda x: (lambda: getattr(sig, x)()))(nm))
    if isinstance(sig, pb.FullStokesSignal):
        add("stokes_key", "str", lambda: sig["Q"])
        add("stokesV", "none", lambda: sig.stokesV)
    return ops


def run_op(ctx, label, fn):
    try:
        return fn(), None
    except Exception as e:  # exceptions are fine here: the monitor judges the inputs either way
        return None, e


def wl_ops(ctx, idx, rng):
    clsname = gen.CLASS_NAMES[idx % 6]
    mem = ["C", "F", "strided", "neg", "offset"][(idx // 6) % 5]
    if gen._side_rng(rng).random() < 0.15:
        mem = "readonly"
    use_dask = (idx // 30) % 5 == 4
    n = int(gen.pick(rng, [1, 2, 5, 8, 16, 27]))
    nchan = None if clsname == "Signal" else int(gen.pick(rng, [1, 2, 4]))
    meta = gen.pick(rng, ["rand", "rand", {}, {"k": [1, 2]}])
    sig, desc = gen.make_signal(rng, clsname, n, nchan=nchan, dask=use_dask, mem=mem, rate=gen.rand_rate(rng, lo=0 if idx % 4 == 0 else 2, hi=7),
                                fc=None if clsname == "Signal" else gen.rand_freq(rng, 3e8, 3e9), meta=meta, start=gen.rand_time(rng, p_none=0.15))
    if isinstance(meta, dict):
        ctx.count("oracle[meta_alias]")
        if sig.meta is meta:
            ctx.violation("no_mutation", "the constructor stored the caller's meta dict by reference (later edits of one change the other)",
                          None, {"what": "meta_aliased", "op": "constructor", "empty_meta": not meta})
    root_before = snapshot.snap(sig)
    with probes.quiet():
        ops = build_ops(sig, rng)
    order = rng.permutation(len(ops))
    ran = []
    for j in order[:int(rng.integers(6, 16))]:
        label, kind, fn = ops[j]
        before = ctx.counters["snapshot_comparisons"]
        res, exc = run_op(ctx, label, fn)
        ran.append(label + ("!" if exc is not None else ""))
        # an output must not share its (mutable) meta dict with the input: annotating the output would modify the input
        for r_ in (res if isinstance(res, tuple) else (res,)):
            if isinstance(r_, pb.Signal) and r_ is not sig and sig.meta is not None:
                ctx.count("oracle[meta_alias]")
                if r_.meta is sig.meta:
                    ctx.violation("no_mutation", f"{label}: the result shares its meta dict object with the input signal", None,
                                  {"what": "meta_aliased", "op": label, "empty_meta": not sig.meta})
                    break
        if ctx.counters["snapshot_comparisons"] == before and label not in ("asarray",):
            ctx.count("ops_without_probe_event")
        ctx.bucket(label, clsname, mem if not use_dask else "dask", kind)
    # history check: after all operations sharing this root, the root is bit-identical
    ctx.count("oracle[root_unchanged]")
    d = snapshot.describe_diff(root_before, snapshot.snap(sig), "root")
    if d:
        ctx.violation("no_mutation", f"after the history {ran} the shared input signal differs from its initial snapshot: {d}",
                      {"history": ran}, {"what": "history"})
    desc.update(history=ran)
    ctx.describe_case(desc)
    ctx.sample(desc, limit=4)


def wl_inplace(ctx, idx, rng):
    """Sanctioned mutations: out= / in-place operators change only the target's data."""
    clsname = gen.CLASS_NAMES[idx % 6]
    sig, desc = gen.make_signal(rng, clsname, int(rng.integers(1, 6)), mem="rand")
    if sig.dtype.kind not in "fc":
        return
    other, _ = gen.make_signal(rng, clsname, len(sig), data=np.asarray(sig.data) * 2 + 1, rate=sig.sample_rate)
    o_before = snapshot.snap(other)
    with probes.quiet():
        x0 = np.asarray(sig.data).copy()
        m0 = monitors.meta_of(sig)
    form = idx // 6 % 3
    if form == 0:
        res, exc = ctx.call("no_mutation", lambda: np.add(sig, other, out=sig), where="np.add(out=sig)")
    elif form == 1:
        def f():
            s = sig
            s += other
            return s
        res, exc = ctx.call("no_mutation", f, where="sig += other")
    else:
        tgt = np.zeros(sig.shape, dtype=sig.dtype)
        res, exc = ctx.call("no_mutation", lambda: np.add(sig, other, out=tgt), where="np.add(out=ndarray)")
        if exc is None:
            with probes.quiet():
                if not np.array_equal(np.asarray(sig.data), x0):
                    ctx.violation("no_mutation", "np.add(sig, other, out=ndarray) modified sig", None, {"what": "out_ndarray"})
    if exc is None:
        ctx.count("oracle[sanctioned]")
        d = snapshot.describe_diff(o_before, snapshot.snap(other), "other")
        if d:
            ctx.violation("no_mutation", f"the non-target operand was modified: {d}", None, {"what": "non_target"})
        with probes.quiet():
            m1 = monitors.meta_of(sig)
            for k in ("cls", "rate", "fc", "bw", "align", "pol", "meta"):
                if m0.get(k) != m1.get(k):
                    ctx.violation("no_mutation", f"in-place target lost its own {k}", None, {"what": "target_meta"})
            if form in (0, 1) and not np.array_equal(np.asarray(sig.data), x0 + np.asarray(other.data)):
                ctx.violation("no_mutation", "in-place result wrong", None, {"what": "target_value"})
    ctx.bucket("inplace", clsname, form)
    ctx.describe_case(desc)


def wl_failpoints(ctx, idx, rng):
    """Crash-point enumeration: inject a fault at every statement boundary inside one call; inputs must stay bit-identical."""
    clsname = ["BasebandSignal", "DualPolarizationSignal", "Signal", "IntensitySignal", "FullStokesSignal", "RadioSignal"][idx % 6]
    n = 8
    sig, desc = gen.make_signal(rng, clsname, n, nchan=None if clsname == "Signal" else 2, mem=gen.pick(rng, ["C", "strided", "offset"]),
                                rate=gen.rand_rate(rng, lo=2, hi=7), fc=None if clsname == "Signal" else gen.rand_freq(rng, 3e8, 3e9))
    with probes.quiet():
        ops = build_ops(sig, rng)
    tool = inject.tool()
    sel = [o for o in ops if not o[0].endswith("_bad") and o[0] not in ("compute", "persist", "asarray", "contains")]
    picks = [sel[int(j)] for j in rng.permutation(len(sel))[:4]]
    total = 0
    done = []
    for label, kind, fn in picks:
        before = snapshot.snap(sig)
        with probes.quiet():
            K, res, exc = tool.count_call(fn)
        if exc is not None or K == 0:
            continue
        Kmax = min(K, 400)
        for k in range(1, Kmax + 1):
            with probes.quiet():
                res, exc, at = tool.fault_call(fn, k)
            total += 1
            d = snapshot.describe_diff(before, snapshot.snap(sig), "input")
            if d:
                ctx.violation("no_mutation", f"{label}: after a fault injected at {at} (statement {k} of {K}) the input differs: {d}",
                              {"op": label, "at": at}, {"what": "crash_point", "op": label})
                break
        done.append(f"{label}:{Kmax}")
        ctx.bucket("failpoints", label, clsname)
    ctx.count("crash_points", total)
    desc.update(failpoint_ops=done)
    ctx.describe_case(desc)
    ctx.sample(desc, limit=2)


FFT_NAMES = ["fft", "ifft", "fft2", "ifft2", "fftn", "ifftn", "rfft", "irfft", "rfft2", "irfft2", "rfftn", "irfftn", "hfft", "ihfft"]


def wl_helpers(ctx, idx, rng):
    """Direct calls of the public helpers (pb.fft.*, pb.utils.*) with caller-held arrays and signals: arguments bit-identical after."""
    name = FFT_NAMES[idx % len(FFT_NAMES)]
    fn = getattr(pb.fft, name)
    real_in = name in ("rfft", "rfft2", "rfftn", "ihfft")
    dtype = gen.pick(rng, [np.float64, np.float32]) if real_in else gen.pick(rng, [np.complex128, np.complex64, np.complex128, np.float64])
    shape = tuple(int(v) for v in rng.integers(2, 9, size=int(rng.integers(2, 4))))
    mem = gen.pick(rng, ["C", "F", "strided", "neg", "offset", "readonly"])
    x, memkind = gen.layout(rng, gen.rand_data(rng, shape, dtype), mem)
    holder = gen.pick(rng, ["array", "array", "signal", "dask"])
    if holder == "array" and rng.random() < 0.2:
        x = x.astype(x.dtype.newbyteorder(">"))      # data read from a big-endian file
        memkind += "+bigendian"
    if holder == "signal":
        sig, _ = gen.make_signal(rng, "Signal", shape[0], data=x, rate=1 * u.kHz)
        with probes.quiet():
            if sig.data is not x and not np.shares_memory(sig.data, x):
                x = sig.data
        arg = sig
    elif holder == "dask":
        arg = da.from_array(x, chunks=-1)
    else:
        arg = x
    kw = {}
    r = rng.random()
    two_d = name.endswith("2") or name.endswith("n")
    if not two_d:
        kw["axis"] = int(rng.integers(-len(shape), len(shape)))
        if r < 0.3:
            kw["n"] = int(shape[kw["axis"]] + rng.integers(-1, 3))
    elif r < 0.4:
        kw["axes"] = (0, 1) if rng.random() < 0.5 else (-1, 0)
    if holder != "dask" and rng.random() < 0.3:
        kw["norm"] = gen.pick(rng, ["ortho", "forward", "backward"])
    desc = {"helper": "pb.fft." + name, "shape": list(shape), "dtype": np.dtype(dtype).name, "mem": memkind, "holder": holder, "kw": {k: str(v) for k, v in kw.items()}}
    ctx.describe_case(desc)
    ctx.sample(desc, limit=6)
    before_x = snapshot.snap(x)
    before_arg = snapshot.snap(arg) if holder == "signal" else None
    try:
        res = fn(arg.data if holder == "signal" and rng.random() < 0.5 else arg, **kw)
        if isinstance(res, da.Array):
            res = res.compute(scheduler="synchronous")
        exc = None
    except Exception as e:
        res, exc = None, e
    ctx.count("oracle[helper_args_unchanged]")
    d = snapshot.describe_diff(before_x, snapshot.snap(x), "array argument")
    if not d and before_arg is not None:
        d = snapshot.describe_diff(before_arg, snapshot.snap(arg), "signal argument")
    if d:
        ctx.violation("no_mutation", f"pb.fft.{name}({holder}, {kw}) modified its argument: {d}"
                                     f"{' (the call raised ' + type(exc).__name__ + ')' if exc is not None else ''}",
                      None, {"op": "pb.fft." + name, "what": "helper_buffer", "holder": holder})
    if exc is None and isinstance(res, np.ndarray) and np.shares_memory(res, x):
        ctx.violation("no_mutation", f"pb.fft.{name} returned an array that shares memory with its argument", None,
                      {"op": "pb.fft." + name, "what": "helper_alias"})
    ctx.bucket("helper", name, np.dtype(dtype).name, memkind, holder, exc is None)
    # pb.utils helpers
    if idx % 3 == 0:
        xr, mk = gen.layout(rng, gen.rand_data(rng, shape, gen.pick(rng, [np.float64, np.float32, np.int16, np.int32])), mem)
        if rng.random() < 0.4:
            xr = xr.astype(xr.dtype.newbyteorder(">"))
            if rng.random() < 0.5:
                xr = np.repeat(xr, 2, axis=0)[::2]      # and a strided view of it
        b = snapshot.snap(xr)
        ax = int(rng.integers(-len(shape), len(shape)))
        try:
            pb.utils.real_to_complex(xr, axis=ax)
        except Exception:
            pass
        ctx.count("oracle[helper_args_unchanged]")
        d = snapshot.describe_diff(b, snapshot.snap(xr), "array argument")
        if d:
            ctx.violation("no_mutation", f"real_to_complex(axis={ax}) modified its argument: {d}", None, {"op": "real_to_complex", "what": "helper_buffer"})


def _mag(x):
    return np.abs(x)


def wl_containers(ctx, idx, rng):
    """Caller-held container arguments (dict of Dask options, list of chunk sizes, tuples of signals) are left as given."""
    clsname = gen.pick(rng, ["Signal", "RadioSignal", "DualPolarizationSignal"])
    n = int(gen.pick(rng, [8, 16, 33]))
    sig, desc = gen.make_signal(rng, clsname, n, dask=True, dtype=gen.pick(rng, [np.complex64, np.complex128]) if clsname != "RadioSignal" else np.float32)
    kind = idx % 3
    ctx.describe_case(dict(desc, container_kind=kind))
    if kind == 0:
        opts = gen.pick(rng, [{}, {"meta": np.array((), dtype=np.float64)}, {"name": "mag-%d" % idx}])
        before = snapshot.snap(opts)
        keys0 = sorted(opts)
        tr = pb.signal_transform(_mag)
        kw = {"signal_type": pb.Signal}
        for s_ in (sig, type(sig).like(sig, sig.data.astype(np.complex128 if sig.dtype.kind == "c" else np.float64))):
            try:
                tr(s_, dask_kwargs=opts, **kw)
            except Exception:
                pass
        what, arg, after_keys = "signal_transform(dask_kwargs=<dict>)", opts, sorted(opts)
        bad = snapshot.describe_diff(before, snapshot.snap(opts), "dask_kwargs") or (None if keys0 == after_keys else f"keys {keys0} -> {after_keys}")
    elif kind == 1:
        chunks = [int(rng.integers(1, n + 1))] + [-1] * (int(rng.integers(0, sig.ndim - 1)) if sig.ndim > 1 else 0)
        before = list(chunks)
        try:
            sig.rechunk(chunks)
        except Exception:
            pass
        what, bad = "rechunk(<list>)", (None if chunks == before else f"{before} -> {chunks}")
    else:
        c = int(rng.integers(1, n))
        parts = [sig[:c], sig[c:]]
        ids = [id(p_) for p_ in parts]
        try:
            pb.concatenate(parts)
        except Exception:
            pass
        what, bad = "concatenate(<list>)", (None if [id(p_) for p_ in parts] == ids and len(parts) == 2 else "the list of pieces was changed")
    ctx.count("oracle[container_args_unchanged]")
    if bad:
        ctx.violation("no_mutation", f"{what} modified the container it was given: {bad}", None, {"what": "container_argument", "op": what})
    ctx.bucket("containers", kind, clsname)


def wl_readers(ctx, idx, rng):
    """Reader calls do not modify the reader's attributes or the arguments."""
    import os
    from ..core import REPO
    data = os.path.join(REPO, "tests", "data")
    kind = idx % 3
    with probes.quiet():
        if kind == 0:
            r = pb.readers.BasebandReader(os.path.join(data, "sample.vdif"), signal_type=pb.Signal)
        elif kind == 1:
            r = pb.readers.GUPPIRawReader([os.path.join(data, f"fake.{i}.raw") for i in range(4)])
        else:
            r = pb.readers.DADAStokesReader(os.path.join(data, "stokes_ef.dada"))
    before = {k: snapshot.snap(v) for k, v in vars(r).items()}
    n = int(rng.integers(0, 16))
    off = int(rng.integers(0, len(r) - n))
    # exceptions are not this property's business (C11 judges them); only the state comparison below counts
    res, exc = ctx.call("no_mutation", r.read, off, n, where="reader.read", expect="any")
    res, exc = ctx.call("no_mutation", r.dask_read, off, n, where="reader.dask_read", expect="any")
    ctx.call("no_mutation", r.read, len(r), 5, expect=EOFError, where="reader.read beyond end")
    after = {k: snapshot.snap(v) for k, v in vars(r).items()}
    ctx.count("oracle[reader_state]")
    for k in before:
        d = snapshot.describe_diff(before[k], after.get(k), f"reader.{k}")
        if d:
            ctx.violation("no_mutation", f"reader attribute changed by read(): {d}", None, {"what": "reader_state"})
    if set(after) != set(before):
        ctx.violation("no_mutation", f"reader gained/lost attributes: {sorted(set(after) ^ set(before))}", None, {"what": "reader_attrs"})
    ctx.bucket("reader", kind)
    ctx.describe_case({"reader": kind, "offset": off, "n": n})


def install_universal(ctx):
    SnapshotMonitor(ctx).install()
    return probes.detach_all


def workloads(ctx):
    q = ctx.tier == "quick"
    return [("R", 1, wl_R), ("ops", 450 if q else 18000, wl_ops), ("inplace", 90 if q else 1800, wl_inplace),
            ("failpoints", 18 if q else 360, wl_failpoints), ("readers", 12 if q else 120, wl_readers),
            ("helpers", 1120 if q else 14000, wl_helpers), ("containers", 120 if q else 1800, wl_containers)]


def setup(ctx):
    SnapshotMonitor(ctx).install()

    def teardown():
        probes.detach_all()
        inject.tool().stop()
    return teardown


def finalize(ctx):
    for e in probes.monitor_errors():
        ctx.inconclusive_because("monitor error: " + e[:600])
    ctx.require("oracle[no_mutation]", 3000, "snapshot comparisons with array-backed arguments")
    ctx.require("oracle[root_unchanged]", 100, "history check")
    ctx.require("crash_points", 500, "crash points enumerated")
    ctx.require("oracle[helper_args_unchanged]", 300, "direct helper calls")
    ctx.note("probe_points", len(op_points()) + 4)
