"""C01 - retained samples keep their absolute timestamps under every crop or slice."""

import math
from fractions import Fraction as F

import numpy as np
import astropy.units as u
from astropy.time import Time
import pulsarbat as pb

from .. import exact, gen, probes, monitors, oracles

from ..replay import wl_R
from .C06 import make_dm

RULE = ("stratified random signals (6 classes x length {0,1,2,prime,2^k,7-smooth+-1} x sample rank x rate decade mHz..4GHz x "
        "start {None, Time in utc/tai/tt}) x slices (missing/negative/out-of-range bounds, step 1-7, start>stop, combined with "
        "frequency/trailing indices), and pipelines (depth<=8) of slices, fast_len, cropped time shifts, whole-sample snippets, "
        "coherent and incoherent dedispersion; every __getitem__/cropper call (also internal ones) is judged by an exact-rational "
        "time ledger. A case is non-trivial when the deciding oracle ran on a non-empty output with a start time; distinct = "
        "distinct (class, length class, rate decade, slice kind / op sequence) strata.")
ASSUMPTIONS = [
    "start times are generated away from leap seconds (2018-2031); rates <= 4 GHz so that one sample >= 4x the 60 ps Time tolerance",
    "tolerance 60 ps per operation + 2^-51 * |offset| (two-double Time resolution incl. UTC<->TAI round trips)",
    "times within 60 ps of an interval edge are unconstrained for contains(), except start_time itself and stop_time",
]
BUDGET = {"quick": 100, "thorough": 900}

LEN_CLASSES = ["0", "1", "2", "prime", "pow2", "smooth+-1", "rand"]


def pick_len(rng, lc, big=False):
    if lc == "0":
        return 0
    if lc == "1":
        return 1
    if lc == "2":
        return 2
    if lc == "prime":
        return int(gen.pick(rng, [3, 5, 7, 11, 13, 17, 31, 101, 257, 1009]))
    if lc == "pow2":
        return int(2 ** rng.integers(2, 11))
    if lc == "smooth+-1":
        return int(gen.pick(rng, [6, 8, 10, 15, 21, 36, 49, 126, 1000]) + gen.pick(rng, [-1, 1]))
    return int(rng.integers(3, 600))


def rand_slice(rng, n, kind):
    def bound(allow_oob=True):
        m = rng.integers(5)
        if m == 0:
            return None
        if m == 1:
            return int(rng.integers(0, n + 1))
        if m == 2:
            return -int(rng.integers(1, n + 2))
        if m == 3 and allow_oob:
            return int(n + rng.integers(0, 5))
        if m == 4 and allow_oob:
            return -int(n + rng.integers(1, 5))
        return int(rng.integers(0, n + 1))
    if kind == "full":
        return slice(None)
    if kind == "plain":
        a = int(rng.integers(0, n + 1))
        b = int(rng.integers(a, n + 1))
        return slice(a, b)
    if kind == "neg":
        return slice(-int(rng.integers(1, n + 2)), gen.pick(rng, [None, -int(rng.integers(0, n + 1)) or None]))
    if kind == "oob":
        return slice(gen.pick(rng, [-(n + 3), None, n + 2, int(rng.integers(0, n + 1))]), gen.pick(rng, [n + 5, -(n + 2), None]))
    if kind == "step":
        return slice(bound(), bound(), int(rng.integers(2, 8)))
    if kind == "step_off":
        a = int(rng.integers(0, max(1, n)))
        return slice(a, None, int(rng.integers(2, 8)))
    if kind == "reversed":
        a = int(rng.integers(0, n + 1))
        return slice(a, int(rng.integers(0, a + 1)), gen.pick(rng, [None, 1, 3]))
    return slice(bound(), bound(), gen.pick(rng, [None, 1, 2, 3, 5]))


SLICE_KINDS = ["full", "plain", "neg", "oob", "step", "step_off", "reversed", "any"]


def rate_decade(q):
    return int(math.floor(math.log10(float(q.to_value(u.Hz)))))


# ------------------------------------------------------------------------------------------------
# contains() oracle
# ------------------------------------------------------------------------------------------------
def check_contains(ctx, sig, rng):
    o = "contains"
    n = len(sig)
    st = sig.start_time
    if st is None:
        t = Time(59000.0, format="mjd")
        ctx.count("oracle[contains_none]")
        if sig.contains(t) is not False and bool(sig.contains(t)):
            ctx.violation(o, "contains() is True for a signal without start time", None, {"what": "no_start"})
        arr = Time([59000.0, 59001.0], format="mjd")
        r = sig.contains(arr)
        if np.shape(r) != (2,) or np.any(r):
            ctx.violation(o, "contains(array) not all-False for a signal without start time", None, {"what": "no_start_arr"})
        if (t in sig):
            ctx.violation(o, "`t in sig` True without start time", None, {"what": "no_start_in"})
        return
    rate = exact.hz(sig.sample_rate)
    dt = 1 / rate
    sp = sig.stop_time
    ks = sorted(set([-2, -1, 0, 1, n - 2, n - 1, n, n + 1] + [int(k) for k in rng.integers(0, max(1, n), size=3)]))
    offs = [(F(k) + F(1, 2)) * dt for k in ks]
    labels = [f"mid{k}" for k in ks]
    if dt >= F(1, 10 ** 8):
        for base, nm in ((F(0), "start"), (F(n) * dt, "stop")):
            for d in (F(-1, 10 ** 9), F(1, 10 ** 9)):
                offs.append(base + d)
                labels.append(f"{nm}{'+' if d > 0 else '-'}1ns")
    times = [st + float(o_) * u.s for o_ in offs]
    if rng.random() < 0.3:
        # the same instants expressed in another time scale
        sc = gen.pick(rng, ["tai", "tt", "utc"])
        times = [getattr(t_, sc) for t_ in times]
    span = F(n) * dt
    tol = exact.time_tol(span) + exact.TIME_TOL_S
    for t, lab in zip(times, labels):
        d = exact.time_diff_s(t, st)          # exact position of the probe actually built
        if abs(d) <= tol or abs(d - span) <= tol:
            ctx.count("ambiguous[contains_edge]")
            continue
        want = (0 <= d < span)
        ctx.count("oracle[contains]")
        got = sig.contains(t)
        got_in = (t in sig)
        if bool(got) != want or bool(got_in) != want:
            ctx.violation(o, f"contains({lab}: start{float(d):+.6e}s) = {got!r} / in = {got_in!r}, expected {want} "
                             f"(len={n}, span={float(span)!r}s)", {"probe": lab}, {"what": "interior", "want": want})
    # exact edges
    ctx.count("oracle[contains_edges]")
    if n > 0 and not bool(sig.contains(st)):
        ctx.violation(o, "contains(start_time) is False for a non-empty signal", {"len": n}, {"what": "start_edge"})
    if bool(sig.contains(sp)):
        ctx.violation(o, "contains(stop_time) is True (interval must be half-open)", {"len": n}, {"what": "stop_edge"})
    # array form agrees with scalar form
    tarr = Time([t.jd1 for t in times], [t.jd2 for t in times], format="jd", scale=times[0].scale, precision=9)
    r = sig.contains(tarr)
    sc = np.array([bool(sig.contains(t)) for t in times])
    if np.shape(r) != (len(times),) or not np.array_equal(np.asarray(r, bool), sc):
        ctx.violation(o, "contains(array) disagrees with scalar contains()", {"array": np.asarray(r).tolist(), "scalar": sc.tolist()},
                      {"what": "array_form"})


# ------------------------------------------------------------------------------------------------
# cropper ledgers (monitors on the transforms)
# ------------------------------------------------------------------------------------------------
class CropperMonitor:
    """Ledger postconditions for fast_len, time_shift(crop), snippet, (in)coherent dedispersion."""

    def __init__(self, ctx):
        self.ctx = ctx

    def install(self):
        T = pb.transforms.transforms
        D = pb.transforms.dedispersion
        probes.attach(T, "fast_len", self, "fast_len")
        probes.attach(T, "time_shift", self, "time_shift")
        probes.attach(T, "snippet", self, "snippet")
        probes.attach(D, "coherent_dedispersion", self, "coherent_dedispersion")
        probes.attach(D, "incoherent_dedispersion", self, "incoherent_dedispersion")
        return self

    def pre(self, point, args, kwargs):
        z = args[0]
        if not isinstance(z, pb.Signal):
            return None
        return monitors.meta_of(z)

    def _advance(self, o, m, out, dropped, feats, ops=2):
        """out.start == in.start + dropped/rate (Fractions)."""
        ctx = self.ctx
        if m["start"] is None:
            if out.start_time is not None:
                ctx.violation(o, "signal without start time acquired one", None, dict(feats, what="acquired"))
            return
        if out.start_time is None:
            ctx.violation(o, "start time lost", None, dict(feats, what="lost"))
            return
        offs = F(dropped) / m["rate"]
        got = exact.time_diff_s(out.start_time, m["start"])
        if abs(got - offs) > exact.time_tol(offs, ops):
            ctx.violation(o, f"start_time advanced by {float(got)!r} s but {float(dropped)} leading samples were dropped "
                             f"({float(offs)!r} s): error {float((got - offs) * m['rate']):.4g} samples",
                          {"len_in": m["len"], "len_out": len(out)}, dict(feats, what="start"))

    def post(self, point, args, kwargs, m, out, exc):
        ctx = self.ctx
        if exc is not None or m is None or not isinstance(out, pb.Signal):
            return
        name = point.label
        o = "ledger_" + name
        feats = {"op": name, "cls": m["cls"].__name__}
        N = m["len"]
        if exact.hz(out.sample_rate) != m["rate"]:
            ctx.violation(o, f"{name} changed the sample rate", None, dict(feats, what="rate"))
            return
        ctx.count(f"oracle[{o}]")
        if name == "fast_len":
            want = oracles.prev_smooth(N)
            if len(out) != want:
                ctx.violation(o, f"fast_len kept {len(out)} of {N} samples, expected {want}", None, dict(feats, what="len"))
            self._advance(o, m, out, 0, feats)
        elif name == "time_shift":
            shift = args[1] if len(args) > 1 else kwargs["shift"]
            crop = args[2] if len(args) > 2 else kwargs.get("crop", False)
            if out is args[0]:
                return
            if not crop:
                if len(out) != N:
                    ctx.violation(o, "uncropped time_shift changed the length", None, dict(feats, what="len"))
                self._advance(o, m, out, 0, feats)
            else:
                quantity = isinstance(shift, u.Quantity)
                if quantity:
                    sh = np.atleast_1d((shift * m["rate_q"]).to_value(u.one)).ravel()
                else:
                    sh = np.atleast_1d(np.asarray(shift, dtype=float)).ravel()
                fr = [F(float(v)) for v in sh]
                if quantity and any(abs(v - round(v)) < F(1, 10 ** 9) and v != round(v) for v in fr):
                    ctx.count("ambiguous[time_shift_integer_guard]")
                    return
                start, stop = oracles.shift_crop(fr, N)
                b_, e_ = oracles.kept_range(start, N + stop, N)
                want_len = e_ - b_
                feats = dict(feats, beyond_length=bool(N + stop < 0))
                if len(out) != want_len:
                    ctx.violation(o, f"cropped time_shift returned {len(out)} samples, expected {want_len} (N={N}, shifts {sh[:6]})",
                                  None, dict(feats, what="len"))
                if len(out) > 0:
                    self._advance(o, m, out, start, feats)
                elif len(out) == want_len:
                    # nothing valid is left: the (empty) result is stamped after the invalid leading samples, inside the input's span
                    self._advance(o, m, out, b_, dict(feats, empty_result=True))
        elif name == "snippet":
            t, n = (args[1], args[2]) if len(args) > 2 else (kwargs.get("t", args[1] if len(args) > 1 else None), kwargs.get("n"))
            if len(out) != int(n):
                ctx.violation(o, f"snippet returned {len(out)} samples, asked for {n}", None, dict(feats, what="len"))
            if isinstance(t, Time):
                if m["start"] is None:
                    return
                tt = exact.time_diff_s(t, m["start"]) * m["rate"]
            elif isinstance(t, u.Quantity):
                tt = F(float(t.to_value(u.s))) * m["rate"]
            else:
                tt = exact.fr(t)
            self._advance(o, m, out, tt, feats, ops=3)
            # the labelled samples are the data: a request (numerically) on the sample grid returns input samples [k:k+n]
            k = round(tt)
            if abs(tt - k) < F(1, 10 ** 5) and len(out) == int(n) and int(n) > 0 and 0 <= k and k + int(n) <= m["len"]:
                with probes.quiet():
                    x = np.asarray(gen.np_data(args[0]))[k:k + int(n)]
                    y = np.asarray(gen.np_data(out))
                if x.shape == y.shape and np.all(np.isfinite(x)):
                    ctx.count("oracle[snippet_grid_data]")
                    scale = float(np.sqrt(np.sum(np.abs(np.asarray(gen.np_data(args[0]), dtype=np.complex128)) ** 2)))
                    err = float(np.sqrt(np.sum(np.abs(y.astype(np.complex128) - x) ** 2)))
                    if err > 1e-2 * scale + 1e-300:
                        ctx.violation(o, f"snippet at t = {float(tt)!r} samples (on the grid within 1e-5) is labelled as starting at input sample {k} "
                                         f"but its data are not input samples [{k}:{k + int(n)}] (l2 difference {err:.3e}, input norm {scale:.3e})",
                                      None, dict(feats, what="grid_data"))
        elif name == "coherent_dedispersion":
            z, dm = args[0], args[1]
            ref = kwargs.get("ref_freq")
            ref = m["fc"] if ref is None else exact.hz(ref)
            nch = m["nchan"]
            fmax, fmin = m["fmax"], m["fmin"]      # the public band edges, as the specification says
            if fmin <= 0 or ref <= 0:
                return
            ref_q = kwargs.get("ref_freq")
            zero_exact = False
            if ref_q is not None:
                for edge in (z.min_freq, z.max_freq):
                    if ref_q.unit == edge.unit and ref_q.value == edge.value:
                        zero_exact = True
            start, stop, amb, _ = oracles.coherent_crop(oracles.dm_value(dm), fmax, fmin, ref, m["rate"], N, zero_exact)
            if amb:
                ctx.count("ambiguous[coherent_integer_delay]")
                return
            b_, e_ = oracles.kept_range(start, stop, N)
            want_len = e_ - b_
            feats = dict(feats, beyond_length=bool(stop < 0))
            if len(out) != want_len:
                ctx.violation(o, f"coherent dedispersion returned {len(out)} samples, expected {want_len} (N={N}, crop {start}:{stop})",
                              None, dict(feats, what="len"))
            elif len(out) > 0:
                self._advance(o, m, out, start, feats)
            else:
                self._advance(o, m, out, b_, dict(feats, empty_result=True))
        elif name == "incoherent_dedispersion":
            if len(out) == 0 or m["start"] is None:
                if m["start"] is None and out.start_time is not None:
                    ctx.violation(o, "signal without start time acquired one", None, dict(feats, what="acquired"))
                return
            got = exact.time_diff_s(out.start_time, m["start"]) * m["rate"]
            k = round(got)
            if abs(got - k) > exact.time_tol(F(k) / m["rate"], 2) * m["rate"] or k < 0:
                ctx.violation(o, f"incoherent dedispersion advanced the start by {float(got)!r} samples (must be a whole number >= 0)",
                              None, dict(feats, what="start"))
            else:
                self._incoherent_sources(o, m, args, kwargs, out, k, feats)
        monitors.check_span(ctx, o, out, feats)
        if len(out) > 0 and m["start"] is not None:
            ctx.count(f"nontrivial[{o}]")


def _incoherent_sources(self, o, m, args, kwargs, out, k, feats):
    """Output sample 0 of channel i must be the input sample k + round(delay_i) of that channel (time ledger via the data)."""
    import dask.array as _da
    ctx = self.ctx
    z, dm = args[0], args[1]
    if isinstance(z.data, _da.Array) or z.shape[0] * int(np.prod(z.shape[1:])) > 1 << 18:
        return
    ref = kwargs.get("ref_freq")
    ref = m["fc"] if ref is None else exact.hz(ref)
    if ref <= 0 or m["fmin"] <= 0:
        return
    labels = monitors.model_labels(m["fc"], m["bw"], m["align"], m["nchan"])
    dmv = oracles.dm_value(dm)
    xin = np.asarray(z.data).reshape(z.shape[0], z.shape[1], -1)
    xout = np.asarray(out.data).reshape(out.shape[0], out.shape[1], -1)
    for i, f in enumerate(labels):
        d = oracles.delay_s(dmv, f, ref) * m["rate"]
        eps = oracles.delay_err_bound(dmv, f, ref, m["rate"]) + F(1, 10 ** 9)
        cands = {math.floor(d + F(1, 2) - eps), math.floor(d + F(1, 2) + eps)}
        hits = np.nonzero(np.all(xin[:, i, :] == xout[0, i, :], axis=-1))[0]
        if len(hits) != 1:
            ctx.count("ambiguous[incoherent_source_not_unique]")
            continue
        ctx.count("oracle[incoherent_source_time]")
        j = int(hits[0])
        if (j - k) not in cands:
            ctx.violation(o, f"channel {i}: output sample 0 (stamped input start + {k} samples) is input sample {j}, i.e. a shift of "
                             f"{j - k} samples, but round(delay) = {sorted(cands)} (delay {float(d):.4f} samples)",
                          {"dm": float(dmv), "ref": float(ref)}, dict(feats, what="source_time"))
            return


CropperMonitor._incoherent_sources = _incoherent_sources


# ------------------------------------------------------------------------------------------------
# workloads
# ------------------------------------------------------------------------------------------------
def wl_slices(ctx, idx, rng):
    ci = idx % 6
    lc = LEN_CLASSES[(idx // 6) % len(LEN_CLASSES)]
    sk = SLICE_KINDS[(idx // 42) % len(SLICE_KINDS)]
    clsname = gen.CLASS_NAMES[ci]
    n = pick_len(rng, lc)
    dec = int(rng.integers(-3, 10))
    rate = gen.rand_rate(rng, decade=dec) if dec < 9 else gen.rand_rate(rng, lo=9.0, hi=9.6)
    use_dask = rng.random() < 0.15
    sig, desc = gen.make_signal(rng, clsname, n, rate=rate, dask=use_dask, data_kind="coded", dtype=None)
    sl = rand_slice(rng, n, sk)
    if rng.random() < 0.2:
        # bounds given as NumPy integers (anything with __index__ is a valid slice bound)
        conv = gen.pick(rng, [np.int64, np.int32, np.intp])
        sl = slice(*[None if v is None else conv(v) for v in (sl.start, sl.stop, sl.step)])
    index = sl
    extra = ""
    if clsname != "Signal" and rng.random() < 0.5:
        nch = sig.shape[1]
        a = int(rng.integers(0, nch))
        b = int(rng.integers(a + 1, nch + 1))
        fs = gen.pick(rng, [slice(a, b), slice(a - nch, None) if a > 0 else slice(None), slice(None, b)])
        index = (sl, fs)
        extra = "+freq"
        if sig.ndim > 2 and rng.random() < 0.4:
            index = index + (int(rng.integers(0, sig.shape[2])),) if clsname in ("RadioSignal", "IntensitySignal", "BasebandSignal") else index
            extra += "+trail" if len(index) > 2 else ""
    elif clsname == "Signal" and sig.ndim > 1 and rng.random() < 0.3:
        index = (sl, int(rng.integers(0, sig.shape[1])))
        extra = "+trail"
    desc.update(index=str(index), len_class=lc, slice_kind=sk)
    ctx.describe_case(desc)
    ctx.sample(desc)
    before = ctx.counters["oracle[getitem_time]"]
    out, exc = ctx.call("getitem_time", lambda: sig[index], where="sig[index]")
    if exc is not None:
        return
    if ctx.counters["oracle[getitem_time]"] == before:
        ctx.inconclusive_because("getitem probe did not fire (wrapper bypassed)")
    b, e, s = sl.indices(n)
    # data: coded samples must be the selected original samples
    if len(out) and not use_dask:
        with probes.quiet():
            want = np.asarray(sig.data)[index]
        if not np.array_equal(np.asarray(out.data), want):
            ctx.violation("getitem_data", "sliced data differ from data[index]", None, {"what": "data"})
        first = np.asarray(out.data).reshape(len(out), -1)[:, 0].real
        src0 = np.asarray(sig.data).reshape(n, -1)
        ctx.count("oracle[coded]")
    with probes.quiet():
        check_contains(ctx, out, rng)
        if rng.random() < 0.3:
            check_contains(ctx, sig, rng)
    if len(out) > 0 and out.start_time is not None:
        ctx.bucket(clsname, lc, dec, sk + extra, "dask" if use_dask else "np")


PIPE_OPS = ["slice", "slice", "fast_len", "tshift_crop", "snippet_int", "step"]


def wl_pipeline(ctx, idx, rng):
    """Pure-crop pipelines on coded data: every leaf sample must carry its original index and time."""
    clsname = gen.CLASS_NAMES[idx % 6]
    n = int(rng.integers(40, 1200))
    dec = int(rng.integers(-3, 9))
    rate = gen.rand_rate(rng, decade=dec)
    start = gen.rand_time(rng, p_none=0.15)
    sig, desc = gen.make_signal(rng, clsname, n, rate=rate, start=start, data_kind="coded",
                                dtype=np.complex128 if clsname in gen.BASEBAND else np.float64)
    root = sig
    root_m = monitors.meta_of(root)
    pool = [(sig, F(0), 1, 0)]   # (signal, offset in root samples, step product, nops)
    seq = []
    depth = int(rng.integers(2, 9))
    for d in range(depth):
        cur, off, stp, nops = pool[int(rng.integers(len(pool)))] if rng.random() < 0.3 else pool[-1]
        L = len(cur)
        op = gen.pick(rng, PIPE_OPS)
        if L < 3:
            op = "slice"
        if op == "slice":
            sl = rand_slice(rng, L, gen.pick(rng, ["plain", "neg", "oob", "any"]))
            b, e, s = sl.indices(L)
            new, exc = ctx.call("pipeline", lambda: cur[sl], where=f"z[{sl}]")
            if exc is not None:
                return
            pool.append((new, off + b * stp, stp * s, nops + 1))
        elif op == "step":
            s = int(rng.integers(2, 5))
            a = int(rng.integers(0, min(L, 5)))
            new, exc = ctx.call("pipeline", lambda: cur[a::s], where="z[a::s]")
            if exc is not None:
                return
            pool.append((new, off + a * stp, stp * s, nops + 1))
        elif op == "fast_len":
            new, exc = ctx.call("pipeline", pb.fast_len, cur)
            if exc is not None:
                return
            pool.append((new, off, stp, nops + 1))
        elif op == "snippet_int":
            t = int(rng.integers(0, L))
            k = int(rng.integers(0, L - t + 1))
            form = rng.integers(3)
            if form == 0:
                targ = gen.pick(rng, [t, float(t), np.int64(t)])
            else:
                targ = t
            new, exc = ctx.call("pipeline", pb.snippet, cur, targ, k, where="snippet")
            if exc is not None:
                return
            pool.append((new, off + t * stp, stp, nops + 1))
        elif op == "tshift_crop":
            # integer shifts: data are delayed, so the coded index of the leaf is offset by the shift
            sh = int(rng.integers(-3, 4))
            new, exc = ctx.call("pipeline", pb.time_shift, cur, sh, crop=True, where="time_shift(crop)")
            if exc is not None:
                return
            if new is cur:
                pool.append((new, off, stp, nops + 1))
            else:
                # integer delay by sh then crop max(0,sh) leading: leaf[k] = cur[k + max(0,sh) - sh]; time advances by max(0,sh)
                pool.append((new, None if off is None else off, stp, nops + 1))
                seq.append(f"tshift({sh})")
                # after a shift the data index and the time index differ: track time only
                pool[-1] = (new, (off, max(0, sh)), stp, nops + 1)
                # flatten: represent as time offset only
                t_off = off if not isinstance(off, tuple) else off
                pool[-1] = (new, ("time_only", (off if not isinstance(off, tuple) else off[1]), max(0, sh), stp), stp, nops + 1)
                break
        seq.append(op)
    desc.update(ops=seq)
    ctx.describe_case(desc)
    ctx.sample(desc, limit=3)
    # offline lineage check on all leaves
    with probes.quiet():
        for leaf, off, stp, nops in pool[1:]:
            if isinstance(off, tuple):
                continue
            ctx.count("oracle[lineage]")
            L = len(leaf)
            if root_m["start"] is None:
                if leaf.start_time is not None:
                    ctx.violation("lineage", "pipeline output acquired a start time", {"ops": seq}, {"what": "acquired"})
                continue
            # rate
            if abs(exact.hz(leaf.sample_rate) * stp - root_m["rate"]) > 8 * nops * exact.REL * root_m["rate"]:
                ctx.violation("lineage", f"leaf rate {leaf.sample_rate} != root rate / {stp}", {"ops": seq}, {"what": "rate"})
            want = F(off) / root_m["rate"]
            got = exact.time_diff_s(leaf.start_time, root_m["start"])
            if L > 0 and abs(got - want) > exact.time_tol(want, nops + 1):
                ctx.violation("lineage", f"after {seq} the leaf start is {float(got)!r} s after the root, ledger says {float(want)!r} s "
                                         f"(err {float((got - want) * root_m['rate']):.3g} root samples)", {"ops": seq}, {"what": "start"})
            if L > 0:
                data = np.asarray(leaf.data).reshape(L, -1)[:, 0].real
                src = np.asarray(root.data).reshape(n, -1)[:, 0].real
                idxs = off + np.arange(L) * stp
                if idxs[-1] >= n or not np.array_equal(data, src[np.asarray(idxs, dtype=np.int64)]):
                    ctx.violation("lineage", f"leaf samples are not root samples {off}+k*{stp} after {seq}", {"ops": seq}, {"what": "data"})
                ctx.bucket("pipe", clsname, dec, ",".join(seq[:4]))


def wl_croppers(ctx, idx, rng):
    """Cropping transforms with their own ledgers: time_shift(crop) with arrays, fractional snippets, dedispersion."""
    op = ["tshift", "tshift_q", "coherent", "incoherent", "snippet_frac", "fast_len", "snippet_grid"][idx % 7]
    grid = op == "snippet_grid"
    if grid:
        op = "snippet_frac"
    dec = int(rng.integers(0, 9))
    start = gen.rand_time(rng, p_none=0.2)
    if op in ("tshift", "tshift_q", "snippet_frac"):
        clsname = gen.pick(rng, gen.CLASS_NAMES)
        n = pick_len(rng, gen.pick(rng, ["prime", "pow2", "smooth+-1", "rand", "2", "1"]))
        n = max(n, 1)
        sig, desc = gen.make_signal(rng, clsname, n, rate=gen.rand_rate(rng, decade=dec), start=start,
                                    dtype=np.complex128 if clsname in gen.BASEBAND else np.float64)
        if op == "snippet_frac":
            k = int(rng.integers(0, n + 1))
            t = float(rng.uniform(0, n - k)) if n - k > 0 else 0.0
            form = int(rng.integers(3))
            if grid:
                # a start on the sample grid written as a time: the conversion back to samples carries rounding fuzz of either sign
                t = float(int(t))
                form = 1 + int(rng.integers(2))
            if form == 1:
                targ = (t / sig.sample_rate).to(u.s)
            elif form == 2 and sig.start_time is not None:
                targ = sig.start_time + (t / sig.sample_rate)
            else:
                targ = t
            desc.update(op=op, t=t, n=k, form=form, grid=grid)
            ctx.describe_case(desc)
            out, exc = ctx.call("ledger_snippet", pb.snippet, sig, targ, k, expect="any")
            if exc is not None:
                if not isinstance(exc, ValueError) or form == 0:
                    # numeric forms inside range must not raise
                    if not (form != 0 and (t < 1e-6 * n + 1e-9 or n - k - t < 1e-6 * n + 1e-9)):
                        ctx.unexpected_exception("ledger_snippet", exc, "snippet in range")
                return
            if len(out) and out.start_time is not None:
                ctx.bucket(op, clsname, dec, form)
            return
        sshape = sig.sample_shape
        mode = int(rng.integers(4))
        if mode == 0 or not sshape:
            sh = float(rng.uniform(-n * 1.2, n * 1.2))
        elif mode == 1:
            sh = rng.uniform(-min(n, 6), min(n, 6), size=sshape)
        elif mode == 2:
            sh = rng.integers(-min(n, 5), min(n, 5) + 1, size=sshape[:1]).astype(float)
        else:
            sh = np.abs(rng.uniform(0, min(n, 9), size=(1,) * len(sshape)))
        shq = sh
        if op == "tshift_q":
            shq = (sh / sig.sample_rate).to(gen.pick(rng, [u.s, u.ms, u.us]))
        desc.update(op=op, shift=np.asarray(sh).tolist() if np.size(sh) < 12 else str(np.shape(sh)))
        ctx.describe_case(desc)
        out, exc = ctx.call("ledger_time_shift", pb.time_shift, sig, shq, crop=True)
        if exc is None and len(out) and out.start_time is not None:
            ctx.bucket(op, clsname, dec, mode, "long" if np.max(np.abs(sh)) >= n else "short")
        return
    if op == "fast_len":
        clsname = gen.pick(rng, gen.CLASS_NAMES)
        n = int(gen.pick(rng, [0, 1, 7, 11, 13, 17, 19, 23, 29, 97, 101, 1001, 4099, int(rng.integers(11, 5000))]))
        sig, desc = gen.make_signal(rng, clsname, n, rate=gen.rand_rate(rng, decade=dec), start=start, extra=() if n > 2000 else None)
        desc.update(op=op)
        ctx.describe_case(desc)
        out, exc = ctx.call("ledger_fast_len", pb.fast_len, sig)
        if exc is None and len(out) and out.start_time is not None:
            ctx.bucket(op, clsname, dec, n)
        return
    # dedispersion
    nchan = int(rng.integers(1, 6))
    n = int(gen.pick(rng, [64, 100, 243, 500, 1000]))
    srhz = 10.0 ** rng.uniform(3, 7.5)
    rate = gen.pick(rng, [srhz * u.Hz, (srhz / 1e6) * u.MHz, (srhz / 1e3) * u.kHz])
    fchz = 10.0 ** rng.uniform(8, 10)
    fchz = max(fchz, srhz * nchan * 2)
    fc = gen.pick(rng, [fchz * u.Hz, (fchz / 1e6) * u.MHz, (fchz / 1e9) * u.GHz])
    clsname = gen.pick(rng, gen.BASEBAND) if op == "coherent" else gen.pick(rng, gen.RADIO)
    sig, desc = gen.make_signal(rng, clsname, n, nchan=nchan, rate=rate, fc=fc, start=start,
                                chan_bw=(rate if rng.random() < 0.5 else rate * 4) if clsname not in gen.BASEBAND else None)
    # choose DM so that the band delay is a handful of samples
    bw = float(sig.bandwidth.to_value(u.Hz))
    if fchz - bw / 2 <= 0:
        ctx.count("skipped_band_not_above_zero")
        return
    per_dm = 4149.377593360996e12 * abs((fchz - bw / 2) ** -2 - (fchz + bw / 2) ** -2) * srhz + 1e-300
    target = rng.uniform(0.2, n * 0.6) if rng.random() < 0.85 else rng.uniform(n * 0.6, n * 1.5)
    dmval = float(target / per_dm) * gen.pick(rng, [1, 1, -1])
    dm = make_dm(rng, dmval)
    rk = int(rng.integers(5))
    ref = [None, sig.min_freq, sig.max_freq, sig.center_freq * 1.3, sig.center_freq * 0.7][rk]
    desc.update(op=op, dm=dmval, ref=str(ref))
    ctx.describe_case(desc)
    kw = {} if ref is None else {"ref_freq": ref}
    fn = pb.coherent_dedispersion if op == "coherent" else pb.incoherent_dedispersion
    out, exc = ctx.call("ledger_" + fn.__name__, fn, sig, dm, expect="any", **kw)
    if exc is not None:
        # only degenerate requests (no valid output time) may raise
        if target < n * 0.45:
            ctx.unexpected_exception("ledger_" + fn.__name__, exc, fn.__name__)
        else:
            ctx.count("degenerate_dedispersion_raised")
        return
    if len(out) and out.start_time is not None:
        ctx.bucket(op, clsname, nchan, rk, "neg" if dmval < 0 else "pos")


def install_universal(ctx):
    monitors.GetitemMonitor(ctx, check_time=True, check_freq=False).install()
    CropperMonitor(ctx).install()
    return probes.detach_all


def workloads(ctx):
    q = ctx.tier == "quick"
    return [("R", 1, wl_R), 
        ("slices", 2400 if q else 120000, wl_slices),
        ("pipeline", 400 if q else 20000, wl_pipeline),
        ("croppers", 840 if q else 28000, wl_croppers),
    ]


def setup(ctx):
    monitors.GetitemMonitor(ctx, check_time=True, check_freq=False).install()
    CropperMonitor(ctx).install()
    return probes.detach_all


def finalize(ctx):
    for e in probes.monitor_errors():
        ctx.inconclusive_because("monitor error: " + e[:600])
    if not ctx.replay:
        ctx.require("oracle[getitem_time]", 300 if ctx.tier == "quick" else 3000, "getitem time ledger")
        ctx.require("oracle[lineage]", 50, "pipeline lineage ledger")
        ctx.require("oracle[contains]", 300, "contains oracle")
        for op in ("fast_len", "time_shift", "snippet", "coherent_dedispersion", "incoherent_dedispersion"):
            ctx.require(f"oracle[ledger_{op}]", 10, f"{op} ledger")
