"""C20 - pb.fft equals the reference DFT on both backends; STFT/ISTFT invert and label correctly."""

import math
from fractions import Fraction as F

import numpy as np
import scipy.fft
import astropy.units as u
import dask
import dask.array as da
import pulsarbat as pb

from .. import exact, gen, probes, monitors, refdft

RULE = ("(a) each of the 14 names x rank 1-3 x lengths {1,2,5,8,9,16,30,64} x dtypes {f4,f8,c8,c16,i2,u1,bool} x axis/axes x n/s "
        "{None, shorter, longer} x norm {backward, ortho, forward} on NumPy arrays and on Dask arrays built from counting delayed "
        "chunks (chunked off the transformed axes): values vs numpy.fft in double precision and the explicit longdouble DFT matrix "
        "(1-d fft/ifft), shape+dtype (also of the lazy Dask array) vs scipy.fft.<name>, no input task executed before compute, "
        "dir()/AttributeError contract. (b) STFT of tones at known absolute frequency: nchan 1-4 x alignment x nperseg "
        "{1,2,3,7,8,33,len} x len not a multiple of nperseg; peak sub-channel label, label spacing, rate, start, class; "
        "ISTFT(STFT(z)) vs z[:len - len%nperseg] in data, rate, start and channel labels. Non-trivial = value oracle ran on N >= 2 "
        "/ a tone was located; distinct = (name, rank, dtype, axis kind, n kind, norm, backend) and (nchan, align, nperseg, parity).")
ASSUMPTIONS = [
    "value tolerance 64*eps*log2(N+2)*||x||_2 with eps of the transform's working precision (single for f4/c8/f2 input)",
    "NumPy-path results are additionally required to be bitwise equal to scipy.fft.<name> with the same arguments",
]
BUDGET = {"quick": 110, "thorough": 1200}

NAMES = ["fft", "fft2", "fftn", "ifft", "ifft2", "ifftn", "rfft", "rfft2", "rfftn", "irfft", "irfft2", "irfftn", "hfft", "ihfft"]
REAL_IN = {"rfft", "rfft2", "rfftn", "ihfft"}
ONE_D = {"fft", "ifft", "rfft", "irfft", "hfft", "ihfft"}
TWO_D = {"fft2", "ifft2", "rfft2", "irfft2"}


class Sentinel:
    """Dask array whose chunks are delayed loads that count their executions."""

    def __init__(self):
        self.loads = 0

    def array(self, x, chunks):
        src = da.from_array(x, chunks=chunks)
        blocks = np.empty(src.numblocks, dtype=object)
        it = np.nditer(np.empty(src.numblocks), flags=["multi_index"])
        for _ in it:
            ix = it.multi_index
            sl = tuple(slice(sum(c[:i]), sum(c[:i + 1])) for c, i in zip(src.chunks, ix))
            piece = x[sl]

            def load(p=piece):
                self.loads += 1
                return p
            blocks[ix] = da.from_delayed(dask.delayed(load, pure=False)(), shape=piece.shape, dtype=piece.dtype)
        return da.block(blocks.tolist())


def ref_np(name, x, kw):
    """numpy.fft reference in double precision."""
    xd = x
    if x.dtype.kind in "fiub":
        xd = x.astype(np.float64)
    elif x.dtype.kind == "c":
        xd = x.astype(np.complex128)
    f = getattr(np.fft, name)
    return f(xd, **kw)


def wl_fft(ctx, idx, rng):
    name = NAMES[idx % 14]
    rank = int(rng.integers(1, 4)) if name in ONE_D else int(rng.integers(2, 4))
    dtypes = [np.float32, np.float64, np.int16, np.uint8, np.bool_, np.float16] if name in REAL_IN else \
        [np.float32, np.float64, np.complex64, np.complex128, np.int16, np.uint8]
    dtype = np.dtype(dtypes[(idx // 14) % len(dtypes)])
    shape = tuple(int(gen.pick(rng, [1, 2, 5, 8, 9, 16, 30, 64] if rank == 1 else [1, 2, 5, 8, 9, 16])) for _ in range(rank))
    x = gen.rand_data(rng, shape, dtype if dtype != np.float16 else np.float32).astype(dtype)
    kw = {}
    axkind = "default"
    if name in ONE_D:
        if rng.random() < 0.6:
            kw["axis"] = int(rng.integers(-rank, rank))
            axkind = "axis"
        ax = kw.get("axis", -1)
        nk = int(rng.integers(3))
        if nk:
            N0 = shape[ax] if name not in ("irfft", "hfft") else 2 * (shape[ax] - 1) or 1
            kw["n"] = max(1, N0 + (-1 if nk == 1 else 3))
        nkind = ["none", "shorter", "longer"][nk]
    else:
        nax = 2 if name in TWO_D else int(rng.integers(1, rank + 1))
        if name in TWO_D:
            if rng.random() < 0.5:
                kw["axes"] = tuple(int(a) for a in rng.choice(rank, size=2, replace=False))
                axkind = "axes"
        else:
            if rng.random() < 0.6:
                kw["axes"] = tuple(int(a) for a in rng.choice(rank, size=nax, replace=False))
                axkind = "axes"
        nk = int(rng.integers(3))
        nkind = ["none", "shorter", "longer"][nk]
        if nk:
            axes = kw.get("axes", (-2, -1) if name in TWO_D else tuple(range(rank)))
            kw["s"] = tuple(max(1, shape[a] + (-1 if nk == 1 else 2)) for a in axes)
            if "axes" not in kw and not (name in TWO_D and rng.random() < 0.6):
                # (for the n-D names dask.array.fft and scipy.fft disagree on which axes a bare s= refers to: always spelled out there;
                #  the 2-D names default to the last two axes in both, so s= alone is kept for them)
                kw["axes"] = tuple(axes)
    norm = gen.pick(rng, [None, "backward", "ortho", "forward"])
    if norm:
        kw["norm"] = norm
    backend = "dask" if (idx // (14 * len(dtypes))) % 2 else "np"
    desc = {"name": name, "shape": list(shape), "dtype": str(dtype), "kw": {k: (list(v) if isinstance(v, tuple) else v) for k, v in kw.items()},
            "backend": backend}
    ctx.describe_case(desc)
    ctx.sample(desc, limit=8)
    o = "fft_reference"
    feats = {"name": name, "backend": backend, "dtype": str(dtype)}
    try:
        want_sp = getattr(scipy.fft, name)(x, **kw)
    except Exception as exc:
        # the reference refuses these arguments: pb.fft must refuse too
        ctx.count("reference_refused")
        fn = getattr(pb.fft, name)
        ctx.call(o, fn, x, expect=type(exc), where=f"pb.fft.{name} (reference raised {type(exc).__name__})", **kw)
        return
    fn, exc = ctx.call(o, lambda: getattr(pb.fft, name), where=f"getattr(pb.fft, {name!r})")
    if exc is not None:
        return
    if backend == "np":
        got, exc = ctx.call(o, fn, x, where=f"pb.fft.{name}", features=feats, **kw)
        if exc is not None:
            return
        ctx.count("oracle[fft_numpy]")
        if not isinstance(got, np.ndarray):
            ctx.violation(o, f"pb.fft.{name}(ndarray) returned {type(got).__name__}", None, dict(feats, what="container"))
            return
    else:
        # chunk only axes that are not transformed
        if name in ONE_D:
            tax = {kw.get("axis", -1) % rank}
        else:
            tax = {a % rank for a in kw.get("axes", (-2, -1) if name in TWO_D else tuple(range(rank)))}
        chunks = tuple((n,) if (i in tax or n == 0) else gen.rand_chunks(rng, (n,), time_chunked=True)[0] for i, n in enumerate(shape))
        sent = Sentinel()
        xd = sent.array(x, chunks)
        lazy, exc = ctx.call(o, fn, xd, where=f"pb.fft.{name}(dask)", features=feats, **kw)
        if exc is not None:
            return
        ctx.count("oracle[fft_dask]")
        if sent.loads != 0:
            ctx.violation(o, f"pb.fft.{name} executed {sent.loads} input chunk loads while building the graph", None, dict(feats, what="eager"))
        if not isinstance(lazy, da.Array):
            ctx.violation(o, f"pb.fft.{name}(dask array) returned {type(lazy).__name__}, not a Dask array", None, dict(feats, what="container"))
            return
        if lazy.dtype != want_sp.dtype or tuple(lazy.shape) != want_sp.shape:
            # mechanism feature: complex-to-real transform whose last transformed axis has length 1 and no explicit n/s
            if name in ONE_D:
                last_ax = kw.get("axis", -1)
            else:
                last_ax = kw.get("axes", (-2, -1) if name in TWO_D else tuple(range(rank)))[-1]
            feats = dict(feats, c2r_len1=bool(name in ("irfft", "irfft2", "irfftn", "hfft") and shape[last_ax] == 1
                                              and "n" not in kw and "s" not in kw and lazy.dtype == want_sp.dtype))
            ctx.violation(o, f"lazy result of pb.fft.{name} announces shape {lazy.shape} dtype {lazy.dtype}; the reference transform gives "
                             f"shape {want_sp.shape} dtype {want_sp.dtype} (input {dtype}, {kw})", None, dict(feats, what="lazy_meta"))
        got = lazy.compute(scheduler="synchronous")
        desc["chunks"] = str(chunks)
    if got.shape != want_sp.shape or got.dtype != want_sp.dtype:
        ctx.violation(o, f"pb.fft.{name}: shape {got.shape} dtype {got.dtype}, reference transform: shape {want_sp.shape} dtype {want_sp.dtype}",
                      None, dict(feats, what="shape_dtype"))
        return
    if backend == "np" and not np.array_equal(got, want_sp, equal_nan=True):
        ctx.violation(o, f"pb.fft.{name} is not bitwise equal to scipy.fft.{name} with the same arguments", None, dict(feats, what="bitwise"))
    # independent values
    try:
        want = ref_np(name, x, kw)
    except Exception:
        ctx.count("numpy_reference_refused")
        return
    if want.shape != got.shape:
        ctx.count("numpy_reference_shape_differs")
        return
    single = dtype in (np.dtype(np.float32), np.dtype(np.complex64), np.dtype(np.float16))
    eps = 2.0 ** -23 if single else 2.0 ** -52
    Nt = int(np.prod([got.shape[a] for a in range(got.ndim)]))
    scale = float(np.sqrt(np.sum(np.abs(want) ** 2))) + 1e-300
    err = float(np.sqrt(np.sum(np.abs(got.astype(np.complex128) - want) ** 2)))
    tol = 64 * eps * math.log2(x.size + 2) * scale
    ctx.stat_max("fft_err_over_tol", err / tol)
    if err > tol:
        ctx.violation(o, f"pb.fft.{name}({dtype}{list(shape)}, {kw}) differs from numpy.fft.{name}: l2 error {err:.3e} > tol {tol:.3e} "
                         f"(relative {err / scale:.3e})", None, dict(feats, what="value"))
    # explicit DFT matrix for the plain 1-d transforms
    if name in ("fft", "ifft") and "n" not in kw:
        ax = kw.get("axis", -1)
        m = refdft.dft(x.astype(np.complex128), axis=ax, inverse=(name == "ifft"))
        N = shape[ax]
        if norm == "ortho":
            m = m * (math.sqrt(N) if name == "ifft" else 1 / math.sqrt(N))
        elif norm == "forward":
            m = m * (N if name == "ifft" else 1.0 / N)
        e2 = float(np.sqrt(np.sum(np.abs(got.astype(np.complex128) - m) ** 2)))
        ctx.count("oracle[dft_matrix]")
        if e2 > tol:
            ctx.violation(o, f"pb.fft.{name} differs from the explicit DFT matrix: l2 error {e2:.3e} > {tol:.3e}", None,
                          dict(feats, what="matrix"))
    if x.size >= 2:
        ctx.bucket(name, rank, str(dtype), axkind, nkind, norm or "default", backend)


def wl_names(ctx, idx, rng):
    o = "fft_names"
    ctx.count("oracle[names]")
    d = dir(pb.fft)
    if sorted(d) != sorted(NAMES):
        ctx.violation(o, f"dir(pulsarbat.fft) = {d}", None, {"what": "dir"})
    bad = ["dct", "idct", "fftshift", "ifftshift", "fftfreq", "rfftfreq", "next_fast_len", "FFT", "fft_", "_fft", "fft3", "hfft2",
           "ihfft2", "set_workers", "nonexistent", "Fft", "irfft3"]
    name = bad[idx % len(bad)]
    ctx.call(o, lambda: getattr(pb.fft, name), expect=AttributeError, where=f"pb.fft.{name}")
    good = NAMES[idx % 14]
    f1, exc = ctx.call(o, lambda: getattr(pb.fft, good))
    if exc is None:
        if getattr(f1, "__name__", None) != good:
            ctx.violation(o, f"pb.fft.{good}.__name__ = {getattr(f1, '__name__', None)!r}", None, {"what": "func_name"})
    ctx.bucket("names", name)
    ctx.bucket("names_ok", good)
    ctx.describe_case({"bad": name, "good": good})


# ------------------------------------------------------------------------------------------------
# STFT / ISTFT
# ------------------------------------------------------------------------------------------------
class OversampledSignal(pb.BasebandSignal):
    """A user subclass for an oversampled filterbank: channels are spaced more closely than they are sampled."""

    def __init__(self, z, /, *, sample_rate, center_freq, oversampling=2, start_time=None, freq_align="center", meta=None):
        super().__init__(z, sample_rate=sample_rate, center_freq=center_freq, start_time=start_time, freq_align=freq_align, meta=meta)
        self._oversampling = oversampling
        self.chan_bw = sample_rate / oversampling

    @property
    def oversampling(self):
        return self._oversampling


def wl_stft(ctx, idx, rng):
    o = "stft"
    nchan = 1 + idx % 4
    align = ["bottom", "center", "top"][(idx // 4) % 3]
    P = [1, 2, 3, 7, 8, 33, "len", 16, 5][(idx // 12) % 9]
    nseg = int(rng.integers(1, 6))
    if P == "len":
        P = int(gen.pick(rng, [4, 9, 12, 25]))
        nseg = 1
    tail = int(rng.integers(0, P))
    N = nseg * P + tail
    clsname = gen.pick(rng, ["BasebandSignal", "BasebandSignal", "DualPolarizationSignal"])
    extra = gen.pick(rng, [(), (), (2,), (2, 3)]) if clsname == "DualPolarizationSignal" else gen.pick(rng, [(), (), (3,), (2, 2), (2, 3)])
    srhz = 10.0 ** rng.uniform(2, 8)
    rate = gen.pick(rng, [srhz * u.Hz, (srhz / 1e6) * u.MHz, (srhz / 1e3) * u.kHz])
    fchz = max(10.0 ** rng.uniform(8, 10), srhz * nchan * 4)
    fc = gen.pick(rng, [fchz * u.Hz, (fchz / 1e6) * u.MHz])
    dtype = gen.pick(rng, [np.complex128, np.complex64])
    # one exact-bin tone per channel: baseband frequency k * sr / P
    ks = [int(rng.integers(-(P // 2), (P - 1) // 2 + 1)) for _ in range(nchan)]
    n = np.arange(N)
    shape = (N, nchan) + ((2,) if clsname == "DualPolarizationSignal" else ()) + tuple(extra)
    x = 1e-3 * (rng.standard_normal(shape) + 1j * rng.standard_normal(shape))
    for i, k in enumerate(ks):
        tone = np.exp(2j * np.pi * k * n / P)
        x[:, i] += tone.reshape((N,) + (1,) * (x.ndim - 2))
    # every trailing component (polarisation, antenna, ...) gets its own amplitude, so that components cannot be exchanged unnoticed
    comp_amp = 1.0 + np.arange(int(np.prod(shape[2:])) if len(shape) > 2 else 1).reshape(shape[2:]) * 0.5
    x = x * comp_amp
    x = x.astype(dtype)
    use_dask = rng.random() < 0.15
    start = gen.rand_time(rng, p_none=0.3)
    sig, desc = gen.make_signal(rng, clsname, N, data=x, rate=rate, fc=fc, align=align, start=start, dask=use_dask)
    oversampled = clsname == "BasebandSignal" and gen._side_rng(rng).random() < 0.1
    if oversampled:
        with probes.quiet():
            sig = OversampledSignal.like(sig, oversampling=int(gen.pick(rng, [2, 4])))
    desc.update(nperseg=P, N=N, tones=ks, user_subclass=bool(oversampled))
    ctx.describe_case(desc)
    ctx.sample(desc, limit=4)
    feats = {"nchan": nchan, "align": align, "odd_nperseg": bool(P % 2), "dask": use_dask, "user_subclass": bool(oversampled)}
    with probes.quiet():
        m = monitors.meta_of(sig)
        in_labels = monitors.model_labels(m["fc"], m["bw"], m["align"], nchan)
    st, exc = ctx.call(o, pb.contrib.stft, sig, nperseg=P, where="stft", features=feats)
    if exc is not None:
        return
    ctx.count("oracle[stft]")
    if type(st) is not type(sig):
        ctx.violation(o, f"stft returned {type(st).__name__}", None, dict(feats, what="class"))
        return
    with probes.quiet():
        ms = monitors.meta_of(st)
        out_labels = [exact.hz(v * st.channel_freqs.unit) for v in st.channel_freqs.value]
    if ms["shape"] != (N // P, nchan * P) + tuple(m["shape"][2:]):
        ctx.violation(o, f"stft shape {ms['shape']}, expected {(N // P, nchan * P) + tuple(m['shape'][2:])}", None, dict(feats, what="shape"))
        return
    if abs(ms["rate"] * P - m["rate"]) > 4 * exact.REL * m["rate"]:
        ctx.violation(o, f"stft sample_rate {st.sample_rate} != input rate / nperseg", None, dict(feats, what="rate"))
    if not monitors.same_time(ms["start"], m["start"], exact.TIME_TOL_S):
        ctx.violation(o, "stft changed start_time", None, dict(feats, what="start"))
    if ms["dtype"] != m["dtype"]:
        ctx.violation(o, f"stft of {m['dtype']} samples returned {ms['dtype']}", None, dict(feats, what="dtype"))
    if oversampled:
        # only the time axis is judged for the user subclass (its channel spacing is its own business)
        back, exc = ctx.call(o, pb.contrib.istft, st, nperseg=P, where="istft", features=feats)
        if exc is None:
            with probes.quiet():
                mb = monitors.meta_of(back)
            if abs(mb["rate"] - m["rate"]) > 8 * exact.REL * m["rate"]:
                ctx.violation(o, f"istft(stft(z)) sample_rate {back.sample_rate} != {sig.sample_rate}", None, dict(feats, what="rate_back"))
        ctx.bucket("stft_subclass", nchan, P)
        return
    sub = m["bw"] / P
    tol = monitors.label_tol(m["fc"], m["bw"], nchan) * 4
    if tol > sub / 100:
        ctx.count("unresolvable[stft_labels]")
        return
    for j in range(1, len(out_labels)):
        if abs((out_labels[j] - out_labels[j - 1]) - sub) > 2 * tol:
            ctx.violation(o, f"stft sub-channel labels are not spaced by sample_rate/nperseg at index {j}", None, dict(feats, what="spacing"))
            break
    # peak sub-channel of each tone must be labelled with the tone's absolute frequency
    with probes.quiet():
        y = gen.np_data(st)
    power = np.sum(np.abs(y.reshape(y.shape[0], y.shape[1], -1)) ** 2, axis=(0, 2))
    for i, k in enumerate(ks):
        seg = power[i * P:(i + 1) * P]
        jpk = int(np.argmax(seg))
        f_true = in_labels[i] + F(k) * m["bw"] / P
        got = out_labels[i * P + jpk]
        ctx.count("oracle[stft_tone]")
        if abs(got - f_true) > sub / 4 + tol:
            ctx.violation(o, f"tone at absolute frequency {float(f_true)!r} Hz (channel {i}, bin {k}/{P}) peaks in sub-channel {i * P + jpk} "
                             f"labelled {float(got)!r} Hz: off by {float((got - f_true) / sub):.3f} sub-channels", None,
                          dict(feats, what="tone_label"))
            break
        # and the tone must not leak: the peak holds (almost) all the power of that channel
        if seg[jpk] < 0.98 * seg.sum():
            ctx.violation(o, f"exact-bin tone of channel {i} is spread over several sub-channels ({seg[jpk] / seg.sum():.3f} in the peak)",
                          None, dict(feats, what="tone_leak"))
            break
    # power per (channel, trailing component) is kept component by component (Parseval over each channel's sub-channels)
    if y.ndim > 2 and N // P >= 1:
        with probes.quiet():
            xk = gen.np_data(sig)[:N - N % P].astype(np.complex128)
        px = np.sum(np.abs(xk) ** 2, axis=0)
        py = np.sum(np.abs(y.astype(np.complex128).reshape((y.shape[0], nchan, P) + y.shape[2:])) ** 2, axis=(0, 2))
        ctx.count("oracle[stft_component_power]")
        if px.shape != py.shape or np.any(np.abs(py / py.sum() - px / px.sum()) > 1e-3 * (px / px.sum())):
            ctx.violation(o, f"stft moved power between trailing components: input power share per (channel, component) "
                             f"{np.round(px / px.sum(), 4).ravel()[:8].tolist()}, output {np.round(py / py.sum(), 4).ravel()[:8].tolist() if px.shape == py.shape else py.shape}",
                          None, dict(feats, what="component_power", trailing=len(shape) - 2))
    # ISTFT(STFT(z)) == z[:N - N % P]
    back, exc = ctx.call(o, pb.contrib.istft, st, nperseg=P, where="istft", features=feats)
    if exc is not None:
        return
    ctx.count("oracle[istft]")
    keep = N - N % P
    with probes.quiet():
        mb = monitors.meta_of(back)
        yb = gen.np_data(back)
        xin = gen.np_data(sig)[:keep]
    if type(back) is not type(sig):
        ctx.violation(o, f"istft returned {type(back).__name__}", None, dict(feats, what="class_back"))
        return
    if mb["dtype"] != m["dtype"]:
        ctx.violation(o, f"istft(stft(z)) of {m['dtype']} samples returned {mb['dtype']}", None, dict(feats, what="dtype_back"))
    if yb.shape != xin.shape:
        ctx.violation(o, f"istft(stft(z)) has shape {yb.shape}, expected {xin.shape}", None, dict(feats, what="shape_back"))
        return
    if abs(mb["rate"] - m["rate"]) > 8 * exact.REL * m["rate"]:
        ctx.violation(o, f"istft(stft(z)) sample_rate {back.sample_rate} != {sig.sample_rate}", None, dict(feats, what="rate_back"))
    if not monitors.same_time(mb["start"], m["start"], exact.TIME_TOL_S):
        ctx.violation(o, "istft(stft(z)) changed start_time", None, dict(feats, what="start_back"))
    with probes.quiet():
        back_labels = monitors.model_labels(mb["fc"], mb["bw"], mb["align"], mb["nchan"])
    if len(back_labels) != nchan or any(abs(a - b) > 2 * tol for a, b in zip(back_labels, in_labels)):
        ctx.violation(o, f"istft(stft(z)) channel labels {[float(v) for v in back_labels[:3]]} != original {[float(v) for v in in_labels[:3]]}",
                      None, dict(feats, what="labels_back"))
    eps = 2.0 ** -23 if np.dtype(dtype) == np.complex64 else 2.0 ** -52
    nrm = float(np.sqrt(np.sum(np.abs(xin) ** 2))) + 1e-300
    err = float(np.sqrt(np.sum(np.abs(yb.astype(np.complex128) - xin.astype(np.complex128)) ** 2)))
    if err > 64 * eps * math.log2(P + 2) * nrm:
        ctx.violation(o, f"istft(stft(z)) differs from z[:{keep}]: relative l2 error {err / nrm:.3e}", None, dict(feats, what="roundtrip"))
    # the kept STFT inverted a second time (and a slice of it): every inversion gives the same samples
    back2, exc2 = ctx.call(o, pb.contrib.istft, st, nperseg=P, where="istft of the same STFT again", features=feats)
    if exc2 is None:
        ctx.count("oracle[istft_repeat]")
        with probes.quiet():
            yb2 = gen.np_data(back2)
        err2 = float(np.sqrt(np.sum(np.abs(yb2.astype(np.complex128) - xin.astype(np.complex128)) ** 2))) if yb2.shape == xin.shape else float("inf")
        if err2 > 64 * eps * math.log2(P + 2) * nrm:
            ctx.violation(o, f"a second istft of the same STFT object differs from z[:{keep}]: relative l2 error {err2 / nrm:.3e} "
                             f"(the first inversion was right)", None, dict(feats, what="roundtrip_repeat"))
    ctx.bucket("stft", nchan, align, P, clsname, "dask" if use_dask else "np")
    if idx % 50 == 0:
        ctx.call(o, pb.contrib.stft, pb.Signal(np.zeros(8), sample_rate=1 * u.Hz), nperseg=2, expect=ValueError, where="stft(non-baseband)")


def workloads(ctx):
    q = ctx.tier == "quick"
    return [("fft", 6720 if q else 50400, wl_fft), ("names", 34, wl_names), ("stft", 2160 if q else 16200, wl_stft)]


def setup(ctx):
    return probes.detach_all


def finalize(ctx):
    ctx.require("oracle[fft_numpy]", 300, "pb.fft NumPy oracle")
    ctx.require("oracle[fft_dask]", 300, "pb.fft Dask oracle")
    ctx.require("oracle[stft_tone]", 300, "STFT tone-label oracle")
    ctx.require("oracle[istft]", 200, "ISTFT round trip")
