"""C10 - concatenate is the exact inverse of splitting and refuses non-contiguous pieces."""

import math
from fractions import Fraction as F

import numpy as np
import astropy.units as u
from astropy.time import Time
import dask.array as da
import pulsarbat as pb

from .. import exact, gen, probes, monitors

RULE = ("(a) round trips: every class x len 0-64 x nchan 1-9 x alignment x rates 1 Hz-4 GHz x chan_bw/fc 1e-9..0.3: split by direct slicing "
        "at random cut points (repeated, 0, len) along time, or along frequency for radio classes, strip the start time of any subset "
        "of pieces, concatenate (axis given as 0/'time'/1/'freq'/2): data bitwise, start time (exact rational), rate, labels (band "
        "model); associativity over random groupings; 2-D grids of blocks reached by different slicing routes (equal start times computed by different arithmetic) joined rows-first and columns-first. (b) rejections: one piece perturbed by >= 1 sample (start +-k dt, swapped, "
        "duplicated, dropped), >= 1 channel (center_freq +-k chan_bw, other chan_bw), other rate (x2, x1.001, 1+delta with delta*len "
        ">= 1 on long Dask-backed pieces), other class, non-signals, 'freq' on non-radio, empty list; joining along a non-time axis "
        "with different start time or labels. Non-trivial = a round trip with >= 2 non-empty pieces or an asserted refusal; "
        "distinct = (class, axis, cut pattern, start pattern / perturbation kind).")
ASSUMPTIONS = [
    "contiguous pieces are direct slices of one original (both sides of each closeness test see the same float offsets)",
    "perturbations are at least one whole sample / one whole channel, and the sample period is >= 4x the 60 ps time tolerance",
    "label perturbations are only asserted when labels are resolvable (chan_bw/fc >= 1e-9)",
]
BUDGET = {"quick": 100, "thorough": 900}


def pieces_by_time(sig, cuts):
    cuts = [0] + sorted(cuts) + [len(sig)]
    return [sig[a:b] for a, b in zip(cuts[:-1], cuts[1:])]


def pieces_by_freq(sig, cuts):
    nch = sig.shape[1]
    cuts = [0] + sorted(set(c for c in cuts if 0 < c < nch)) + [nch]
    return [sig[:, a:b] for a, b in zip(cuts[:-1], cuts[1:])]


def strip_start(p):
    return type(p).like(p, start_time=None)


def compare(ctx, o, orig, out, npieces, feats, expect_start=True):
    with probes.quiet():
        mo, mr = monitors.meta_of(orig), monitors.meta_of(out)
        xo, xr = gen.np_data(orig), gen.np_data(out)
    ctx.count(f"oracle[{o}]")
    if type(out) is not type(orig):
        ctx.violation(o, f"result class {type(out).__name__}", None, dict(feats, what="class"))
        return
    if xo.shape != xr.shape or not np.array_equal(xo, xr, equal_nan=True):
        ctx.violation(o, f"concatenated data differ from the original (shapes {xr.shape} vs {xo.shape})", None, dict(feats, what="data"))
    if abs(mr["rate"] - mo["rate"]) > 4 * exact.REL * mo["rate"]:
        ctx.violation(o, f"sample_rate {out.sample_rate} != {orig.sample_rate}", None, dict(feats, what="rate"))
    if expect_start and mo["start"] is not None:
        if mr["start"] is None:
            ctx.violation(o, "start time lost although a piece had one", None, dict(feats, what="start_lost"))
        else:
            d = exact.time_diff_s(mr["start"], mo["start"])
            if abs(d) > exact.time_tol(F(mo["len"]) / mo["rate"], npieces + 1):
                ctx.violation(o, f"start time moved by {float(d * mo['rate'])!r} samples", None, dict(feats, what="start"))
    elif mr["start"] is not None:
        ctx.violation(o, "result has a start time although no piece had one", None, dict(feats, what="start_acquired"))
    if "fc" in mo:
        tol = monitors.label_tol(mo["fc"], mo["bw"], mo["nchan"]) * (npieces + 1)
        if tol <= mo["bw"] / 1000:
            la = monitors.model_labels(mo["fc"], mo["bw"], mo["align"], mo["nchan"])
            lb = monitors.model_labels(mr["fc"], mr["bw"], mr["align"], mr["nchan"])
            if len(la) != len(lb) or any(abs(a - b) > tol for a, b in zip(la, lb)):
                ctx.violation(o, f"channel labels changed: {float(la[0])!r}.. -> {float(lb[0]) if lb else None!r}.. "
                                 f"(align {mo['align']} -> {mr['align']})", None, dict(feats, what="labels", align=mo["align"],
                                                                                       even=mo["nchan"] % 2 == 0))
            with probes.quiet():
                bp = monitors.band_model_problems(out)
            for code, text in (bp or []):
                ctx.violation(o, "result violates the band model: " + text, None, dict(feats, what="band_" + code))
    if mo.get("pol") != mr.get("pol") or mo["meta"] != mr["meta"]:
        ctx.violation(o, "pol_type/meta of the first piece not kept", None, dict(feats, what="attrs"))


def band_for(rng, clsname, nchan):
    """rate, fc, bw with a resolvable, possibly very narrow relative bandwidth."""
    if clsname in gen.BASEBAND:
        rate = gen.rand_rate(rng, lo=0.0, hi=9.0)
        bw = rate
    else:
        rate = gen.rand_rate(rng, lo=0.0, hi=9.6)
        bw = gen.rand_freq(rng, 1.0, 1e9)
    bwhz = float(bw.to_value(u.Hz))
    ratio = 10.0 ** rng.uniform(-8.5, -0.6)
    fchz = max(bwhz / ratio, bwhz * nchan)
    fc = (fchz * u.Hz).to(gen.pick(rng, [u.Hz, u.MHz, u.GHz]))
    return rate, fc, bw


def wl_roundtrip(ctx, idx, rng):
    clsname = gen.CLASS_NAMES[idx % 6]
    axis_kind = (idx // 6) % 3          # 0: time, 1: time (other spelling/pattern), 2: freq (radio only)
    nchan = int(gen.pick(rng, [1, 2, 3, 4, 5, 6, 8, 9]))
    align = ["bottom", "center", "top"][(idx // 18) % 3]
    n = int(gen.pick(rng, [0, 1, 2, 3, 5, 8, 16, 33, 64, 400]))
    use_dask = rng.random() < 0.15
    kw = {}
    if clsname != "Signal":
        rate, fc, bw = band_for(rng, clsname, nchan)
        kw = dict(rate=rate, fc=fc, chan_bw=bw, nchan=nchan, align=align)
    sig, desc = gen.make_signal(rng, clsname, n, dask=use_dask, start=gen.rand_time(rng, p_none=0.2), **kw)
    if n > 64 and n / float(sig.sample_rate.to_value(u.Hz)) >= 1e4:
        # a span of hours to days: float64 seconds round at the level of Time's own closeness tolerance (tens of ps), so whether a
        # contiguous sequence is accepted is decided by rounding (same limit as in the "deep_shift" rejection workload): keep it short
        with probes.quiet():
            sig = sig[:64]
        n = 64
        desc["shape"][0] = 64
    o = "roundtrip"
    if axis_kind == 2 and clsname != "Signal":
        cuts = [int(c) for c in rng.integers(0, nchan + 1, size=int(rng.integers(1, 4)))]
        with probes.quiet():
            ps = pieces_by_freq(sig, cuts)
            r_ = rng.random()
            if r_ < 0.15:
                ps = [sig]          # no cut point at all: the signal itself (whatever its alignment) is the only piece
            elif r_ < 0.45:
                # the same sub-bands described the way a reader delivers them: even-width pieces labelled 'bottom' / 'top'
                # (center_freq moved by half a channel so that every channel label stays what it was)
                def redescribe(p_):
                    if p_.shape[1] % 2:
                        return p_
                    al = gen.pick(rng, ["bottom", "top", "center"])
                    sh = {"bottom": 0.5, "top": -0.5, "center": 0.0}[al] - {"bottom": 0.5, "top": -0.5, "center": 0.0}[p_.freq_align]
                    return type(p_).like(p_, freq_align=al, center_freq=p_.center_freq + sh * p_.chan_bw)
                ps = [redescribe(p_) for p_ in ps]
        axis = gen.pick(rng, [1, "freq"])
        feats = {"axis": "freq", "cls": clsname}
        pat = "freq"
        # along frequency every piece has the same start time; strip some
        strip = [rng.random() < 0.3 for _ in ps]
    else:
        ncut = int(rng.integers(0, 5))
        cuts = [int(c) for c in rng.integers(0, n + 1, size=ncut)]
        if rng.random() < 0.3:
            cuts += [0, n][:int(rng.integers(0, 3))]
        if n >= 33 and rng.random() < 0.25:
            cuts = list(range(1, n))        # one piece per sample: dozens of stamped pieces (a long observation read block by block)
        with probes.quiet():
            ps = pieces_by_time(sig, cuts)
        axis = gen.pick(rng, [0, "time"])
        feats = {"axis": "time", "cls": clsname}
        pat = "time"
        strip = [rng.random() < 0.35 for _ in ps]
    if sig.start_time is None:
        strip = [True] * len(ps)
    all_stripped = all(strip)
    with probes.quiet():
        ps2 = [strip_start(p) if s and p.start_time is not None else p for p, s in zip(ps, strip)]
    desc.update(axis=str(axis), cuts=cuts, stripped=[bool(s) for s in strip])
    ctx.describe_case(desc)
    ctx.sample(desc)
    call_kw = {} if (axis == 0 and rng.random() < 0.5) else {"axis": axis}
    seq = ps2 if rng.random() < 0.7 else tuple(ps2)
    out, exc = ctx.call(o, pb.concatenate, seq, where="concatenate(pieces)", features=feats, **call_kw)
    if exc is not None:
        return
    # with pieces lacking a start time before the first dated piece, the result start is back-computed: same tolerance
    compare(ctx, o, sig, out, len(ps2), feats, expect_start=not all_stripped)
    nonempty = sum(1 for p in ps if len(p) > 0)
    if nonempty >= 2:
        ctx.bucket(clsname, pat, len(ps), tuple(strip), "dask" if use_dask else "np", n == 0)
    # associativity
    if len(ps2) >= 3:
        k = int(rng.integers(1, len(ps2) - 1))
        left, e1 = ctx.call(o, pb.concatenate, ps2[:k + 1], where="concatenate(left group)", **call_kw)
        right, e2 = ctx.call(o, pb.concatenate, ps2[k:], where="concatenate(right group)", **call_kw)
        if e1 is None and e2 is None:
            a, e3 = ctx.call(o, pb.concatenate, [left] + ps2[k + 1:], where="concatenate([(a..b), c..])", **call_kw)
            b, e4 = ctx.call(o, pb.concatenate, ps2[:k] + [right], where="concatenate([a.., (b..c)])", **call_kw)
            for r_, e_ in ((a, e3), (b, e4)):
                if e_ is None:
                    ctx.count("oracle[associativity]")
                    compare(ctx, "associativity", sig, r_, len(ps2), dict(feats, grouping=True), expect_start=not all_stripped)


PERT = ["shift_plus", "shift_minus", "swap", "duplicate", "drop", "fc_plus", "fc_minus", "bw", "rate2", "rate1001", "class", "nonsignal",
        "freq_on_nonradio", "empty", "freq_gap", "freq_overlap", "freq_swap", "other_start_freqaxis", "other_labels_timeaxis_trailing",
        "other_start_trailing", "rate_drift", "deep_shift"]


def expect_refusal(ctx, o, seq, feats, exc_type, where, **kw):
    ctx.count("oracle[rejection]")
    res, exc = ctx.call(o, pb.concatenate, seq, expect="any", where=where, **kw)
    if exc is None:
        ctx.violation(o, f"{where}: accepted and returned a {type(res).__name__} of length {len(res)} instead of raising "
                         f"{exc_type.__name__}", None, dict(feats, what="accepted"))
    elif not isinstance(exc, exc_type):
        ctx.violation(o, f"{where}: raised {type(exc).__name__}: {exc}, expected {exc_type.__name__}", None, dict(feats, what="exc_type"))
    return exc


def wl_reject(ctx, idx, rng):
    kind = PERT[idx % len(PERT)]
    clsname = gen.CLASS_NAMES[(idx // len(PERT)) % 6]
    radio_needed = kind in ("fc_plus", "fc_minus", "bw", "freq_gap", "freq_overlap", "freq_swap", "other_start_freqaxis",
                            "other_labels_timeaxis_trailing", "other_start_trailing")
    if radio_needed and clsname == "Signal":
        clsname = "RadioSignal"
    if kind == "bw" and clsname in gen.BASEBAND:
        clsname = "IntensitySignal"
    if kind == "freq_on_nonradio":
        clsname = "Signal"
    nchan = int(gen.pick(rng, [2, 3, 4, 6, 9]))
    if kind in ("bw", "rate2", "rate1001", "shift_plus", "shift_minus", "swap", "class") and rng.random() < 0.3:
        nchan = 1
    align = gen.pick(rng, ["bottom", "center", "top"])
    n = int(gen.pick(rng, [4, 8, 16, 33, 64]))
    kw = {}
    if clsname != "Signal":
        rate, fc, bw = band_for(rng, clsname, nchan)
        kw = dict(rate=rate, fc=fc, chan_bw=bw, nchan=nchan, align=align)
    else:
        kw = dict(rate=gen.rand_rate(rng, lo=0, hi=9.6))
    start = gen.rand_time(rng, p_none=0.0)
    extra = (2,) if kind in ("other_labels_timeaxis_trailing", "other_start_trailing") and clsname in ("RadioSignal", "IntensitySignal", "BasebandSignal") else None
    sig, desc = gen.make_signal(rng, clsname, n, start=start, extra=extra, **kw)
    desc.update(perturbation=kind)
    ctx.describe_case(desc)
    ctx.sample(desc, limit=8)
    o = "rejection"
    feats = {"kind": kind, "cls": clsname}
    k = int(rng.integers(1, 4))
    cut = int(rng.integers(1, n))
    with probes.quiet():
        a, b = sig[:cut], sig[cut:]
        dt = sig.dt
    ctx.bucket("reject", kind, clsname)
    # sequence variant: the pieces were first joined successfully (so any derived state of theirs has been computed), then one
    # piece is changed in place through its public setters, then the join is tried again
    if clsname != "Signal" and kind in ("fc_plus", "fc_minus", "freq_gap", "freq_overlap") and rng.random() < 0.5:
        with probes.quiet():
            m_ = monitors.meta_of(sig)
            resolvable = monitors.label_tol(m_["fc"], m_["bw"], nchan) <= m_["bw"] / 1000
        if resolvable:
            sgn = 1 if kind in ("fc_plus", "freq_gap") else -1
            if kind.startswith("fc"):
                x_, y_ = sig[:cut], sig[cut:]
                ax = {}
            else:
                c_ = int(rng.integers(1, nchan))
                x_, y_ = sig[:, :c_], sig[:, c_:]
                ax = {"axis": "freq"}
            ok1, e1 = ctx.call("roundtrip", pb.concatenate, [x_, y_], where="first join of the untouched pieces", **ax)
            if e1 is None:
                with probes.quiet():
                    y_.center_freq = y_.center_freq + sgn * k * y_.chan_bw
                expect_refusal(ctx, o, [x_, y_], dict(feats, channels=k, via_setter=True), ValueError,
                               f"second piece moved by {sgn * k:+d} channels through its center_freq setter after a first successful join", **ax)
                if nchan % 2 == 0 and not ax:
                    with probes.quiet():
                        y2 = sig[cut:]
                        _ = y2.channel_freqs
                        y2.freq_align = {"bottom": "top", "top": "bottom", "center": "top"}[y2.freq_align]
                    expect_refusal(ctx, o, [x_, y2], dict(feats, via_setter="freq_align"), ValueError,
                                   "second piece re-aligned through its freq_align setter (labels move by half / one channel)")
    if kind in ("shift_plus", "shift_minus"):
        sgn = 1 if kind == "shift_plus" else -1
        with probes.quiet():
            b2 = type(b).like(b, start_time=b.start_time + sgn * k * dt)
        expect_refusal(ctx, o, [a, b2], dict(feats, samples=k), ValueError, f"second piece {sgn * k:+d} samples off")
        if rng.random() < 0.5:
            # also with an undated piece in between
            with probes.quiet():
                mid = strip_start(sig[cut:cut + 1])
                c2 = type(b).like(sig[cut + 1:], start_time=sig[cut + 1:].start_time + sgn * k * dt) if cut + 1 < n else None
            if c2 is not None and len(c2):
                expect_refusal(ctx, o, [a, mid, c2], dict(feats, samples=k, undated_between=True), ValueError,
                               f"third piece {sgn * k:+d} samples off after an undated piece")
    elif kind == "swap":
        expect_refusal(ctx, o, [b, a], feats, ValueError, "pieces in the wrong order")
        if n >= 4:
            # four pieces A B C D with equally long inner pieces exchanged: first start, last stop and total length are as in the original
            w_in = (n - 2) // 2
            with probes.quiet():
                A, B, C, D = sig[:1], sig[1:1 + w_in], sig[1 + w_in:1 + 2 * w_in], sig[1 + 2 * w_in:]
            expect_refusal(ctx, o, [A, C, B, D], dict(feats, pieces=4), ValueError, "inner pieces B and C exchanged (four pieces)")
            with probes.quiet():
                Bs = type(B).like(B, start_time=B.start_time + dt)
            expect_refusal(ctx, o, [A, Bs, C, D], dict(feats, pieces=4, samples=1), ValueError, "inner piece B one sample late (four pieces)")
    elif kind == "duplicate":
        expect_refusal(ctx, o, [a, a, b], feats, ValueError, "duplicated piece (overlap)")
    elif kind == "drop":
        if n >= 3:
            c1, c2 = sorted(int(v) for v in rng.choice(np.arange(1, n), size=2, replace=False))
            with probes.quiet():
                p, q = sig[:c1], sig[c2:]
            expect_refusal(ctx, o, [p, q], dict(feats, samples=c2 - c1), ValueError, f"gap of {c2 - c1} samples")
    elif kind in ("fc_plus", "fc_minus"):
        sgn = 1 if kind == "fc_plus" else -1
        with probes.quiet():
            m = monitors.meta_of(sig)
            resolvable = monitors.label_tol(m["fc"], m["bw"], nchan) <= m["bw"] / 1000
            b2 = type(b).like(b, center_freq=b.center_freq + sgn * k * b.chan_bw)
        if resolvable:
            feats2 = dict(feats, channels=k, rel_bw_below_1e5=bool(m["bw"] * k / abs(m["fc"]) < F(1, 10 ** 5)))
            expect_refusal(ctx, o, [a, b2], feats2, ValueError, f"second piece labelled {sgn * k:+d} channels off (joined along time)")
    elif kind == "bw":
        with probes.quiet():
            b2 = type(b).like(b, chan_bw=b.chan_bw * float(gen.pick(rng, [2, 0.5, 1.5])))
        expect_refusal(ctx, o, [a, b2], feats, ValueError, "second piece with another chan_bw")
    elif kind in ("rate2", "rate1001"):
        f = 2.0 if kind == "rate2" else 1.001
        with probes.quiet():
            if clsname in gen.BASEBAND:
                b2 = type(b).like(b, sample_rate=b.sample_rate * f)
            else:
                b2 = type(b).like(b, sample_rate=b.sample_rate * f)
        expect_refusal(ctx, o, [a, b2], feats, ValueError, f"second piece with sample_rate x{f}")
    elif kind == "rate_drift":
        # 1 + delta with delta * len >= 1: long Dask-backed pieces so that no memory is needed
        L = int(gen.pick(rng, [3 * 10 ** 5, 2 * 10 ** 6, 10 ** 7, 3 * 10 ** 9]))        # (the last: hours of GHz-rate data, lazy)
        delta = float(gen.pick(rng, [2.0, 5.0, 30.0])) / L
        sshape = sig.shape[1:]
        big = da.zeros((L,) + sshape, dtype=sig.dtype, chunks=(min(L, 10 ** 7),) + sshape)
        with probes.quiet():
            A = type(sig).like(sig, big)
            B = type(sig).like(sig, big, sample_rate=sig.sample_rate * (1 + delta), start_time=A.stop_time)
        expect_refusal(ctx, o, [A, B], dict(feats, delta_below_1e5=delta < 1e-5), ValueError,
                       f"second piece's sample_rate differs by {delta:.2e} (drift of {delta * L:.0f} samples over its length)")
    elif kind == "deep_shift":
        # a discontinuity of 1-3 samples far (> 1e5 samples) into the sequence; also the contiguous version must be accepted
        L = int(gen.pick(rng, [150000, 450000, 2 * 10 ** 6]))
        sshape = sig.shape[1:]
        big = da.zeros((L,) + sshape, dtype=sig.dtype, chunks=(L,) + sshape)
        sgn = int(gen.pick(rng, [1, -1]))
        with probes.quiet():
            A = type(sig).like(sig, big)
            Bok = type(sig).like(sig, start_time=A.stop_time)
            B = type(sig).like(sig, start_time=A.stop_time + sgn * k * dt)
        # acceptance of the contiguous pair is only demanded while float64 rounding of L/rate stays far below the 38 ps
        # closeness tolerance of Time (Bok's start was computed as A.stop_time, i.e. by different arithmetic)
        span_s = L / float(sig.sample_rate.to_value(u.Hz))
        if span_s < 1e4:
            good, e0 = ctx.call("roundtrip", pb.concatenate, [A, Bok], where="long contiguous pieces")
        else:
            good, e0 = ctx.call("roundtrip", pb.concatenate, [A, Bok], where="long contiguous pieces", expect="any")
            e0 = e0 or None
            if isinstance(e0, Exception):
                ctx.count("ambiguous[long_span_rounding]")
        if e0 is None and good is not None:
            ctx.count("oracle[long_contiguous_accepted]")
            if len(good) != L + n:
                ctx.violation("roundtrip", "long contiguous pieces: wrong length", None, {"what": "long_len"})
        expect_refusal(ctx, o, [A, B], dict(feats, samples=k, deep=True), ValueError,
                       f"second piece {sgn * k:+d} samples off after a first piece of {L} samples")
    elif kind == "class":
        with probes.quiet():
            if clsname == "Signal":
                other = pb.RadioSignal(np.asarray(b.data).reshape(len(b), -1)[:, :1], sample_rate=b.sample_rate, start_time=b.start_time,
                                       center_freq=1 * u.GHz, chan_bw=1 * u.MHz)
            else:
                par = [c for c in type(b).__mro__[1:] if c in monitors.ALL_CLASSES][0]
                other = par.like(b)
        expect_refusal(ctx, o, [a, other], feats, TypeError, "pieces of different classes")
    elif kind == "nonsignal":
        expect_refusal(ctx, o, [np.asarray(a.data), np.asarray(b.data)], feats, TypeError, "plain arrays")
        expect_refusal(ctx, o, [a, np.asarray(b.data)], feats, TypeError, "signal + plain array")
    elif kind == "freq_on_nonradio":
        expect_refusal(ctx, o, [sig, sig], feats, TypeError, "axis='freq' on non-radio signals", axis="freq")
    elif kind == "empty":
        expect_refusal(ctx, o, [], feats, ValueError, "empty list")
    elif kind in ("freq_gap", "freq_overlap", "freq_swap"):
        with probes.quiet():
            c = int(rng.integers(1, nchan))
            lo, hi = sig[:, :c], sig[:, c:]
            m = monitors.meta_of(sig)
            resolvable = monitors.label_tol(m["fc"], m["bw"], nchan) <= m["bw"] / 1000
            if kind == "freq_gap":
                hi2 = type(hi).like(hi, center_freq=hi.center_freq + k * hi.chan_bw)
                seq, w = [lo, hi2], f"gap of {k} channels"
            elif kind == "freq_overlap":
                hi2 = type(hi).like(hi, center_freq=hi.center_freq - k * hi.chan_bw)
                seq, w = [lo, hi2], f"overlap of {k} channels"
            else:
                seq, w = [hi, lo], "bands in the wrong order"
        if resolvable:
            expect_refusal(ctx, o, seq, dict(feats, channels=k), ValueError, w + " (joined along frequency)", axis=gen.pick(rng, [1, "freq"]))
        if resolvable and nchan >= 4:
            # four sub-bands A B C D (B and C equally wide) with only the *inner* ones wrong: the outer band edges are as in the original
            w_in = (nchan - 2) // 2
            e0, e1, e2 = 1, 1 + w_in, 1 + 2 * w_in
            with probes.quiet():
                A, B, C, D = sig[:, :e0], sig[:, e0:e1], sig[:, e1:e2], sig[:, e2:]
                if kind == "freq_swap":
                    seq4, w4 = [A, C, B, D], "inner sub-bands B and C exchanged"
                else:
                    sg = 1 if kind == "freq_gap" else -1
                    kk = min(k, w_in)
                    B2 = type(B).like(B, center_freq=B.center_freq + sg * kk * B.chan_bw)
                    seq4, w4 = [A, B2, C, D], f"inner sub-band B moved by {sg * kk:+d} channels"
            ok4, e4 = ctx.call("roundtrip", pb.concatenate, [A, B, C, D], where="join of four sub-bands", axis="freq")
            expect_refusal(ctx, o, seq4, dict(feats, channels=k, pieces=4), ValueError, w4 + " (four pieces joined along frequency)", axis=gen.pick(rng, [1, "freq"]))
    elif kind == "other_start_freqaxis":
        with probes.quiet():
            c = int(rng.integers(1, nchan))
            lo, hi = sig[:, :c], sig[:, c:]
            hi2 = type(hi).like(hi, start_time=hi.start_time + gen.pick(rng, [1, -1]) * k * dt)
        expect_refusal(ctx, o, [lo, hi2], dict(feats, samples=k), ValueError, f"bands whose start times differ by {k} samples", axis=1)
    elif kind in ("other_labels_timeaxis_trailing", "other_start_trailing"):
        if sig.ndim < 3 or clsname in ("FullStokesSignal", "DualPolarizationSignal"):
            return
        with probes.quiet():
            p, q = sig[:, :, :1], sig[:, :, 1:]
            m = monitors.meta_of(sig)
            resolvable = monitors.label_tol(m["fc"], m["bw"], nchan) <= m["bw"] / 1000
            if kind == "other_start_trailing":
                q2 = type(q).like(q, start_time=q.start_time + k * dt)
                okay = True
            else:
                q2 = type(q).like(q, center_freq=q.center_freq + k * q.chan_bw)
                okay = resolvable
        if okay:
            good, e0 = ctx.call("roundtrip", pb.concatenate, [p, q], where="concatenate along a trailing axis", axis=2)
            if e0 is None:
                compare(ctx, "roundtrip", sig, good, 2, {"axis": "trailing", "cls": clsname})
            expect_refusal(ctx, o, [p, q2], dict(feats, channels=k), ValueError,
                           "pieces with different " + ("start time" if kind == "other_start_trailing" else "channel labels") + " joined along axis 2", axis=2)


def wl_blocks(ctx, idx, rng):
    """2-D regroupings: a radio signal cut into a grid of (time x frequency) blocks reached by different slicing routes; joining
    rows then columns, or columns then rows, reproduces the original (split inverse + associativity across axes)."""
    clsname = gen.RADIO[idx % 5]
    nchan = int(gen.pick(rng, [2, 3, 4, 6, 8]))
    align = gen.pick(rng, ["bottom", "center", "top"])
    n = int(gen.pick(rng, [4, 9, 16, 33]))
    if clsname in gen.BASEBAND:
        rate = gen.rand_rate(rng, lo=0.0, hi=9.0)
        kw = dict(rate=rate)
    else:
        kw = dict(rate=gen.rand_rate(rng, lo=0.0, hi=9.0), chan_bw=gen.rand_freq(rng, 1e3, 1e8))
    # a start time with a non-round day fraction, so differently computed equal times differ in the last bit
    start = gen.rand_time(rng, p_none=0.0)
    start = start + float(rng.uniform(0.1, 0.9)) * u.s
    sig, desc = gen.make_signal(rng, clsname, n, nchan=nchan, align=align, start=start, fc=gen.rand_freq(rng, 3e9, 3e10), **kw)
    a = int(rng.integers(0, n - 1))
    b = int(rng.integers(1, n - a))
    f = int(rng.integers(1, nchan))
    o = "roundtrip"
    feats = {"axis": "grid", "cls": clsname}
    with probes.quiet():
        # the same time range [a+b:] reached by two routes
        tl, tr = sig[:a + b, :f], sig[:a + b, f:]
        bl = sig[a:][b:, :f]
        br = sig[a + b:, f:]
        br2 = sig[a + b:][:, f:]
    desc.update(grid=[a, b, f])
    ctx.describe_case(desc)
    ctx.sample(desc, limit=3)
    bottom, e1 = ctx.call(o, pb.concatenate, [bl, br], where="join along freq: z[a:][b:, :f] next to z[a+b:, f:]", axis=gen.pick(rng, [1, "freq"]), features=feats)
    top, e2 = ctx.call(o, pb.concatenate, [tl, tr], where="join along freq (top row)", axis=1, features=feats)
    if e1 is None and e2 is None:
        whole, e3 = ctx.call(o, pb.concatenate, [top, bottom], where="join rows along time", features=feats)
        if e3 is None:
            compare(ctx, o, sig, whole, 4, feats)
            ctx.count("oracle[grid]")
    left, e4 = ctx.call(o, pb.concatenate, [tl, bl], where="join along time (left column)", features=feats)
    right, e5 = ctx.call(o, pb.concatenate, [tr, br2], where="join along time (right column)", features=feats)
    if e4 is None and e5 is None:
        whole2, e6 = ctx.call(o, pb.concatenate, [left, right], where="join columns along freq", axis="freq", features=feats)
        if e6 is None:
            compare(ctx, o, sig, whole2, 4, feats)
            ctx.count("oracle[grid]")
    # a band first joined in time with a leading piece lacking a start time, then joined along frequency
    with probes.quiet():
        lead = strip_start(sig[:a + b, :f])
    col, e7 = ctx.call(o, pb.concatenate, [lead, bl], where="undated piece + dated piece along time", features=feats)
    if e7 is None and e5 is None:
        whole3, e8 = ctx.call(o, pb.concatenate, [col, right], where="join along freq after back-computing the start time", axis=1, features=feats)
        if e8 is None:
            compare(ctx, o, sig, whole3, 4, feats)
    ctx.bucket("grid", clsname, nchan, align, a == 0)


def workloads(ctx):
    q = ctx.tier == "quick"
    return [("blocks", 800 if q else 16000, wl_blocks), ("roundtrip", 3240 if q else 64800, wl_roundtrip), ("reject", len(PERT) * 6 * (4 if q else 100), wl_reject)]


def setup(ctx):
    return probes.detach_all


def finalize(ctx):
    ctx.require("oracle[roundtrip]", 500, "round-trip oracle")
    ctx.require("oracle[associativity]", 100, "associativity oracle")
    ctx.require("oracle[rejection]", 300, "rejection oracle")
    ctx.require("oracle[grid]", 100, "2-D regrouping oracle")
