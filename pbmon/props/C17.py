"""C17 - elementwise NumPy operations on signals equal the same operations on their data."""

import operator
import warnings

import numpy as np
import astropy.units as u
import dask.array as da
import pulsarbat as pb

from .. import exact, gen, probes, monitors

from ..replay import wl_R

RULE = ("all numpy ufuncs with nin<=2, nout<=2 valid for the operand dtypes x operand arrangements {sig o sig, sig o array, array o sig, "
        "sig o scalar, scalar o sig, sig o Quantity, Quantity o sig, subclass/superclass mixes} x 6 classes x NumPy/Dask x where=/out= "
        "forms (keyword, tuple with None, ndarray target, signal target, in-place operator chains). Every Signal.__array_ufunc__ call is "
        "judged: values recomputed independently from snapshots of the unwrapped operands (bitwise, NaN-aware, after the class's safe "
        "cast), result class/metadata = those of the signal whose __array_ufunc__ NumPy consulted (checked to be the first signal "
        "operand, subclass before superclass), out= identity and metadata preservation. Plus refusal of reduce/accumulate/outer/at/"
        "reduceat/matmul and np.asarray/np.array with dtype=/copy=. Non-trivial = value oracle ran; distinct = (ufunc, arrangement, "
        "class, backend, out form).")
ASSUMPTIONS = [
    "'first signal operand' is read as the operand NumPy consults first: subclass instances before superclass instances, otherwise left to right",
    "ufunc/operand combinations that NumPy itself rejects on the raw arrays must be rejected (any exception) on signals too",
]
BUDGET = {"quick": 100, "thorough": 900}


def unwrap(v):
    return v.data if isinstance(v, pb.Signal) else v


def snap(v):
    """Independent copy of an operand's raw value."""
    d = unwrap(v)
    if isinstance(d, da.Array):
        return d.copy()     # new Array object on the same graph: dask implements out= by rebinding the target Array in place
    if isinstance(d, np.ndarray):
        return d.copy()
    return d


def to_np(v):
    if isinstance(v, da.Array):
        return v.compute(scheduler="synchronous")
    return v


def first_signal(inputs):
    sigs = [i for i in inputs if isinstance(i, pb.Signal)]
    if not sigs:
        return None
    best = sigs[0]
    for s in sigs[1:]:
        if type(s) is not type(best) and isinstance(s, type(best)):
            best = s
    return best


class UfuncMonitor:
    def __init__(self, ctx):
        self.ctx = ctx

    def install(self):
        probes.attach(pb.Signal, "__array_ufunc__", self, "Signal.__array_ufunc__")
        return self

    def pre(self, point, args, kwargs):
        self_, ufunc, method = args[0], args[1], args[2]
        inputs = args[3:]
        tok = {"inputs": [snap(i) for i in inputs], "meta": monitors.meta_of(self_)}
        out = kwargs.get("out")
        if out is not None:
            tok["out_meta"] = [monitors.meta_of(o) if isinstance(o, pb.Signal) else None for o in out]
            tok["out_prev"] = [None if o is None else snap(o) for o in out]
        return tok

    def post(self, point, args, kwargs, tok, res, exc):
        ctx = self.ctx
        o = "ufunc"
        self_, ufunc, method = args[0], args[1], args[2]
        inputs = args[3:]
        ctx.count("ufunc_events")
        feats = {"ufunc": ufunc.__name__, "method": method, "cls": type(self_).__name__}
        if method != "__call__" or ufunc is np.matmul:
            ctx.count("oracle[refusal_path]")
            if exc is None and res is not NotImplemented:
                ctx.violation(o, f"np.{ufunc.__name__}.{method} on a signal was not refused (returned {type(res).__name__})", None,
                              dict(feats, what="not_refused"))
            return
        kw = {k: v for k, v in kwargs.items() if k != "out"}
        if "where" in kw:
            kw["where"] = unwrap(kw["where"])
        out = kwargs.get("out")
        # independent recomputation from the snapshots
        ref_exc = None
        try:
            with warnings.catch_warnings():
                warnings.simplefilter("ignore")
                if out is not None and all(p_ is None or isinstance(p_, np.ndarray) for p_ in tok.get("out_prev", [None])):
                    # same call on independent copies of the targets' previous contents (matters for where= / dtype= / casting=)
                    targets = tuple(None if p_ is None else p_.copy() for p_ in tok["out_prev"])
                    ref = ufunc(*tok["inputs"], out=targets, **kw)
                else:
                    ref = ufunc(*tok["inputs"], **{k: v for k, v in kw.items() if k != "where"}) if out is not None else ufunc(*tok["inputs"], **kw)
        except Exception as e:  # noqa
            ref_exc = e
            ref = None
        if exc is not None:
            if ref_exc is None and ref is not None:
                # the raw operation works; the only sanctioned failure is a result the class's dtype set does not admit
                refs = ref if isinstance(ref, tuple) else (ref,)
                admitted = all(self._admits(type(self_), r) for r in refs)
                if admitted and out is None:
                    ctx.unexpected_exception(o, exc, f"np.{ufunc.__name__} on {type(self_).__name__}", dict(feats, what="raised"))
                elif not isinstance(exc, (ValueError, TypeError)):
                    ctx.violation(o, f"inadmissible result raised {type(exc).__name__}", None, dict(feats, what="exc_type"))
                else:
                    ctx.count("oracle[dtype_refusal]")
            return
        if res is NotImplemented:
            return
        ctx.count("oracle[ufunc_values]")
        want_first = first_signal(inputs)
        if want_first is not None and want_first is not self_:
            ctx.violation(o, "NumPy consulted a signal that is not the first signal operand (harness assumption broken)", None,
                          dict(feats, what="consult_order"))
        results = res if isinstance(res, tuple) else (res,)
        if len(results) != ufunc.nout:
            ctx.violation(o, f"np.{ufunc.__name__} returned {len(results)} objects for nout={ufunc.nout}", None, dict(feats, what="nout"))
            return
        outs = out if out is not None else (None,) * ufunc.nout
        refs = (ref if isinstance(ref, tuple) else (ref,)) if ref is not None else (None,) * ufunc.nout
        for k, (r, tgt) in enumerate(zip(results, outs)):
            if tgt is not None:
                if r is not tgt:
                    ctx.violation(o, f"out= target {k} was not returned as such (got a {type(r).__name__})", None, dict(feats, what="out_identity"))
                    continue
                if isinstance(tgt, pb.Signal):
                    m0 = tok["out_meta"][k]
                    m1 = monitors.meta_of(tgt)
                    for key in ("cls", "rate", "fc", "bw", "align", "pol", "meta"):
                        if m0.get(key) != m1.get(key):
                            ctx.violation(o, f"out= signal's own {key} changed {m0.get(key)!r} -> {m1.get(key)!r}", None,
                                          dict(feats, what="out_meta"))
                    if not monitors.same_time(m0["start"], m1["start"], 0):
                        ctx.violation(o, "out= signal's start_time changed", None, dict(feats, what="out_meta"))
                got = unwrap(r)
            else:
                if not isinstance(r, pb.Signal):
                    ctx.violation(o, f"result {k} of np.{ufunc.__name__} is a {type(r).__name__}, not a signal", None, dict(feats, what="unwrapped"))
                    continue
                if type(r) is not type(self_):
                    ctx.violation(o, f"result class {type(r).__name__}, first signal operand is a {type(self_).__name__}", None,
                                  dict(feats, what="class"))
                m1 = monitors.meta_of(r)
                m0 = tok["meta"]
                for key in ("rate", "fc", "bw", "align", "pol", "meta"):
                    if m0.get(key) != m1.get(key):
                        ctx.violation(o, f"result {key} = {m1.get(key)!r}, first signal operand has {m0.get(key)!r}", None, dict(feats, what="meta"))
                if not monitors.same_time(m0["start"], m1["start"], 0):
                    ctx.violation(o, "result start_time differs from the first signal operand's", None, dict(feats, what="meta"))
                if isinstance(self_, CountsSignal) and isinstance(r, CountsSignal) and (r.scale, r.unit_name) != (self_.scale, self_.unit_name):
                    ctx.violation(o, f"result of np.{ufunc.__name__} on a user subclass lost its constructor arguments: scale/unit "
                                     f"{(r.scale, r.unit_name)!r}, operand has {(self_.scale, self_.unit_name)!r}", None, dict(feats, what="subclass_args"))
                got = r.data
            if refs[k] is None:
                continue
            if isinstance(refs[k], da.Array) != isinstance(got, da.Array) and tgt is None:
                # the same ufunc on the underlying (Dask) data is lazy: the wrapped result is, too (and the other way round)
                ctx.violation(o, f"np.{ufunc.__name__}: result data is {type(got).__name__}, the operation on the underlying arrays gives "
                                 f"{type(refs[k]).__name__} (computed eagerly / container changed)", None, dict(feats, what="container"))
                continue
            try:
                got = to_np(got)
                got_exc = None
            except Exception as ce:     # lazy (Dask) result that fails when computed
                got_exc = ce
            try:
                want = to_np(refs[k])
                want_exc = None
            except Exception as ce:
                want_exc = ce
            if got_exc is not None or want_exc is not None:
                if (got_exc is None) != (want_exc is None):
                    ctx.violation(o, f"np.{ufunc.__name__}: computing the lazy result {'fails' if got_exc else 'works'} "
                                     f"({type(got_exc or want_exc).__name__}) but the same operation on the underlying arrays "
                                     f"{'fails' if want_exc else 'works'}", None, dict(feats, what="compute_failure"))
                else:
                    ctx.count("both_fail_at_compute")
                continue
            if isinstance(r, pb.Signal) and tgt is None and type(r)._req_dtype and np.asarray(want).dtype not in [np.dtype(d) for d in type(r)._req_dtype]:
                want = np.asarray(want).astype(type(r)._req_dtype[0], casting="safe")
            gv, wv = np.asarray(got), np.asarray(want)
            if tgt is not None and gv.dtype != wv.dtype and np.can_cast(wv.dtype, gv.dtype, casting="same_kind"):
                wv = wv.astype(gv.dtype)          # the ufunc casts its result into the given target
            if isinstance(want, u.Quantity) != isinstance(got, u.Quantity) or (isinstance(want, u.Quantity) and want.unit != got.unit):
                ctx.violation(o, f"np.{ufunc.__name__}: result data is {type(got).__name__}"
                                 f"{'[' + str(got.unit) + ']' if isinstance(got, u.Quantity) else ''}, the operation on the underlying arrays gives "
                                 f"{type(want).__name__}{'[' + str(want.unit) + ']' if isinstance(want, u.Quantity) else ''}", None,
                              dict(feats, what="unit"))
                continue
            if gv.shape != wv.shape or gv.dtype != wv.dtype:
                ctx.violation(o, f"np.{ufunc.__name__}: result shape/dtype {gv.shape}/{gv.dtype}, on the underlying arrays {wv.shape}/{wv.dtype}",
                              None, dict(feats, what="shape_dtype"))
                continue
            if "where" in kw and tgt is None:
                # without a target the unselected positions are uninitialised memory: compare the selected ones only
                msk = np.broadcast_to(np.asarray(to_np(kw["where"]), dtype=bool), gv.shape)
                gv, wv = gv[msk], wv[msk]
            eq = np.array_equal(gv, wv, equal_nan=True) if gv.dtype.kind in "fc" else np.array_equal(gv, wv)
            if not eq:
                ctx.violation(o, f"np.{ufunc.__name__} on signals differs from the same ufunc on the underlying arrays "
                                 f"(first difference at {tuple(int(v) for v in np.argwhere(~((gv == wv) | ((gv != gv) & (wv != wv))))[0])})",
                              None, dict(feats, what="value"))
        ctx.count("nontrivial[ufunc]")

    @staticmethod
    def _admits(cls, r):
        if not cls._req_dtype:
            return True
        dt = np.asarray(to_np(r)).dtype if not isinstance(r, da.Array) else r.dtype
        return dt in [np.dtype(d) for d in cls._req_dtype] or np.can_cast(dt, cls._req_dtype[0], casting="safe")


# elementwise ufuncs only: generalized ufuncs (matmul, vecdot, matvec, vecmat) have a core signature
UFUNCS = sorted([f for f in vars(np).values() if isinstance(f, np.ufunc) and f.nin <= 2 and f.nout <= 2 and f.signature is None],
                key=lambda f: f.__name__)
UFUNCS = [f for i, f in enumerate(UFUNCS) if f not in UFUNCS[:i]]
ARR = ["sig_sig", "sig_arr", "arr_sig", "sig_scalar", "scalar_sig", "sig_q", "q_sig", "sub_super", "super_sub", "sig_npscalar", "npscalar_sig"]


class CountsSignal(pb.Signal):
    """A user subclass whose extra metadata are ordinary (positional-or-keyword) constructor parameters, with defaults."""

    def __init__(self, z, /, scale=1.0, unit_name="counts", *, sample_rate, start_time=None, meta=None):
        super().__init__(z, sample_rate=sample_rate, start_time=start_time, meta=meta)
        self._scale, self._unit_name = scale, unit_name

    @property
    def scale(self):
        return self._scale

    @property
    def unit_name(self):
        return self._unit_name


def wl_ufunc(ctx, idx, rng):
    uf = UFUNCS[idx % len(UFUNCS)]
    arr = ARR[(idx // len(UFUNCS)) % len(ARR)] if uf.nin == 2 else "unary"
    clsname = gen.CLASS_NAMES[int(rng.integers(6))]
    use_dask = rng.random() < 0.2
    n = int(rng.integers(1, 6))
    sig, desc = gen.make_signal(rng, clsname, n, dask=use_dask)
    if clsname == "Signal" and gen._side_rng(rng).random() < 0.3:
        with probes.quiet():
            sig = CountsSignal.like(sig, scale=float(rng.integers(2, 9)), unit_name="K")
        desc["user_subclass"] = True
    x = gen.np_data(sig)
    desc.update(ufunc=uf.__name__, arrangement=arr)
    ctx.describe_case(desc)
    ctx.sample(desc)
    other_arr = gen.rand_data(rng, x.shape, x.dtype) + (2 if x.dtype.kind != "b" else 0)
    if x.dtype.kind in "fc" and x.size and gen._side_rng(rng).random() < 0.4:
        other_arr.flat[0] = 0          # a flagged (zeroed) sample: division by it is a floating-point error event
    if arr == "unary":
        ops = (sig,)
    elif arr == "sig_sig":
        s2, _ = gen.make_signal(rng, clsname, n, data=other_arr, dask=use_dask)
        ops = (sig, s2)
    elif arr == "sig_arr":
        ops = (sig, other_arr)
    elif arr == "arr_sig":
        ops = (other_arr, sig)
    elif arr == "sig_scalar":
        ops = (sig, gen.pick(rng, [2, 2.5, np.float32(3), np.int64(2)]))
    elif arr == "scalar_sig":
        ops = (gen.pick(rng, [2, 2.5, np.float64(3)]), sig)
    elif arr in ("sig_npscalar", "npscalar_sig"):
        sc = gen.pick(rng, [np.True_, np.False_, np.bool_(x.max() > 0), np.int8(3), np.uint16(2), np.float32(1.5), np.float16(2.0),
                            np.complex64(2 + 0j), np.int64(-2), np.longdouble(1.25)])
        ops = (sig, sc) if arr == "sig_npscalar" else (sc, sig)
    elif arr == "sig_q":
        ops = (sig, gen.pick(rng, [50 * u.percent, 2 * u.Jy, 3.0 * u.one, np.full(x.shape[1:], 2.0) * u.K]))
    elif arr == "q_sig":
        ops = (gen.pick(rng, [50 * u.percent, 2 * u.Jy, 3.0 * u.one]), sig)
    else:
        # subclass / superclass mix: same data in a parent class
        parents = [c for c in type(sig).__mro__[1:] if c in monitors.ALL_CLASSES]
        if not parents:
            ops = (sig, other_arr)
        else:
            par = parents[int(rng.integers(len(parents)))]
            sup = par.like(sig, other_arr)
            ops = (sig, sup) if arr == "sub_super" else (sup, sig)
    before = ctx.counters["ufunc_events"]
    kw = {}
    outform = "none"
    r = rng.random()
    raw = tuple(unwrap(v) for v in ops)
    # the caller's floating-point error handling (np.errstate / np.seterr) applies to signals as it does to their data
    strict = (not use_dask) and x.dtype.kind in "fc" and gen._side_rng(rng).random() < 0.25
    if strict:
        with probes.quiet():
            try:
                with np.errstate(all="raise"), warnings.catch_warnings():
                    warnings.simplefilter("ignore")
                    uf(*raw)
                raw_raises = False
            except FloatingPointError:
                raw_raises = True
            except Exception:
                raw_raises = None
        if raw_raises:
            ctx.count("oracle[errstate_respected]")
            try:
                with np.errstate(all="raise"), warnings.catch_warnings():
                    warnings.simplefilter("ignore")
                    uf(*ops)
                got_exc = None
            except Exception as e_:
                got_exc = e_
            if not isinstance(got_exc, FloatingPointError):
                ctx.violation("ufunc", f"under np.errstate(all='raise') np.{uf.__name__} raises FloatingPointError on the underlying arrays but "
                                       f"{'returned a result' if got_exc is None else 'raised ' + type(got_exc).__name__} on signals", None,
                              {"what": "errstate_ignored", "ufunc": uf.__name__})
            ctx.bucket(uf.__name__, arr, clsname, "np", "errstate_raise")
            return
    try:
        with warnings.catch_warnings():
            warnings.simplefilter("ignore")
            raw_res = uf(*raw)           # same containers as the signal path (Dask operands stay lazy)
        raw_ok = True
    except Exception:
        raw_ok = False
    if raw_ok and r < 0.25 and not use_dask:
        rr = raw_res if isinstance(raw_res, tuple) else (raw_res,)
        targets = []
        for k, q in enumerate(rr):
            qa = np.asarray(q)
            if isinstance(q, u.Quantity):
                targets = None
                break
            ch = rng.integers(3)
            if ch == 0:
                targets.append(None)
            elif ch == 1:
                targets.append(np.zeros(qa.shape, dtype=qa.dtype))
            else:
                try:
                    targets.append(pb.Signal(np.zeros(qa.shape, dtype=qa.dtype), sample_rate=7 * u.Hz, meta={"target": k}))
                except Exception:
                    targets.append(None)
        if targets is not None and any(t is not None for t in targets):
            kw["out"] = tuple(targets) if len(targets) > 1 or rng.random() < 0.5 else targets[0]
            outform = "out"
            extra = rng.random()
            if extra < 0.35:
                bshape = np.broadcast_shapes(*[np.shape(v) for v in raw])
                mask = rng.random(bshape) < 0.5
                kw["where"] = mask if rng.random() < 0.7 else pb.Signal(mask, sample_rate=1 * u.Hz)
                outform = "out+where"
            elif extra < 0.5 and all(t is None or np.asarray(unwrap(t)).dtype.kind == "f" for t in targets):
                kw["casting"] = "same_kind"
                outform = "out+casting"
    if raw_ok and 0.25 <= r < 0.33 and not use_dask and not any(isinstance(v, u.Quantity) for v in raw):
        # a mask without out=: only the selected elements are defined; the mask itself may be a signal (z > 0)
        try:
            bshape = np.broadcast_shapes(*[np.shape(v) for v in raw])
            mask = rng.random(bshape) < 0.5
            kw["where"] = mask if rng.random() < 0.4 else pb.Signal(mask, sample_rate=1 * u.Hz) if len(bshape) else mask
            outform = "where"
        except ValueError:
            pass
    with warnings.catch_warnings():
        warnings.simplefilter("ignore")
        try:                      # (ctx.call has its own `where=` label argument, which would swallow the ufunc's)
            res, exc = uf(*ops, **kw), None
        except Exception as e:    # judged by the monitor
            res, exc = None, e
    if exc is not None and raw_ok and ctx.counters["ufunc_events"] == before:
        # NumPy never reached Signal.__array_ufunc__ although the raw operation is valid (e.g. Quantity refused first)
        ctx.count("not_dispatched_to_signal")
    elif (exc is not None and raw_ok and isinstance(exc, TypeError) and "NotImplemented" in str(exc)
          and not any(isinstance(v, u.Quantity) for v in ops)):
        # the signal itself declined an elementwise operation that is valid on its data
        ctx.violation("ufunc", f"np.{uf.__name__} with operands {[type(v).__name__ for v in ops]} is valid on the underlying arrays but was "
                               f"refused on signals: {exc}", None, {"what": "refused_valid", "ufunc": uf.__name__, "arrangement": arr})
    if exc is None and not raw_ok:
        ctx.violation("ufunc", f"np.{uf.__name__} is rejected on the underlying arrays but returned {type(res).__name__} on signals", None,
                      {"what": "accepts_invalid", "ufunc": uf.__name__})
    if exc is None:
        ctx.bucket(uf.__name__, arr, clsname, "dask" if use_dask else "np", outform)


OPERATORS = [operator.add, operator.sub, operator.mul, operator.truediv, operator.pow, operator.lt, operator.ge, operator.eq, operator.ne,
             operator.neg, operator.abs, operator.iadd, operator.imul, operator.isub, operator.floordiv, operator.mod]


def wl_operators(ctx, idx, rng):
    op = OPERATORS[idx % len(OPERATORS)]
    clsname = gen.CLASS_NAMES[(idx // len(OPERATORS)) % 6]
    use_dask = rng.random() < 0.2
    sig, desc = gen.make_signal(rng, clsname, int(rng.integers(1, 6)), dask=use_dask)
    x = gen.np_data(sig).copy()
    desc.update(op=op.__name__)
    ctx.describe_case(desc)
    other = gen.pick(rng, [2.0, 3, gen.rand_data(rng, x.shape, x.dtype) + 2, "self"])
    if isinstance(other, str):
        other = sig
    o = "operator"
    if op in (operator.neg, operator.abs):
        res, exc = ctx.call(o, op, sig, expect="any")
    elif op in (operator.iadd, operator.imul, operator.isub):
        # chains of in-place operators: the same object must come back, keeping its metadata
        with probes.quiet():
            m0 = monitors.meta_of(sig)
        # the signal has been converted to an array before (anything the conversion leaves behind must not outlive the in-place ops)
        conv0, _ = ctx.call("asarray", lambda: np.asarray(sig), where="asarray before in-place chain")
        tgt = sig
        ok = True
        for _ in range(3):
            try:
                r2 = op(tgt, 2.0)
            except Exception as e:
                if isinstance(sig, (pb.IntensitySignal, pb.BasebandSignal, pb.Signal)) and x.dtype.kind in "fc":
                    ctx.unexpected_exception(o, e, f"in-place {op.__name__}")
                ok = False
                break
            ctx.count("oracle[inplace_chain]")
            if r2 is not sig:
                ctx.violation(o, f"in-place {op.__name__} returned a different object", None, {"what": "inplace_identity"})
                ok = False
                break
        if ok:
            with probes.quiet():
                m1 = monitors.meta_of(sig)
                y = gen.np_data(sig)
            ref = x.copy()
            for _ in range(3):
                ref = op(ref, 2.0)
            for key in ("cls", "rate", "fc", "bw", "align", "pol", "meta"):
                if m0.get(key) != m1.get(key):
                    ctx.violation(o, f"in-place chain changed {key}", None, {"what": "inplace_meta"})
            if not np.array_equal(y, ref, equal_nan=True):
                ctx.violation(o, "in-place chain result differs from the same chain on the array", None, {"what": "inplace_value"})
            for lab, conv in (("np.asarray", lambda: np.asarray(sig)), ("np.array", lambda: np.array(sig)),
                              ("np.array(dtype=)", lambda: np.array(sig, dtype=sig.dtype, copy=True))):
                c1, e1 = ctx.call("asarray", conv, where=lab + " after in-place chain")
                ctx.count("oracle[asarray_after_inplace]")
                if e1 is None and not (isinstance(c1, np.ndarray) and c1.shape == y.shape and np.array_equal(c1, y, equal_nan=True)):
                    ctx.violation("asarray", f"{lab}(signal) after a chain of in-place operators does not yield the signal's current data "
                                             f"(Dask-backed: {use_dask})", None, {"what": "asarray_stale", "dask": use_dask})
            ctx.bucket("inplace", op.__name__, clsname, "dask" if use_dask else "np")
        return
    else:
        res, exc = ctx.call(o, op, sig, other, expect="any")
    if exc is None:
        ctx.bucket("operator", op.__name__, clsname, "dask" if use_dask else "np")


def wl_refusals(ctx, idx, rng):
    clsname = gen.CLASS_NAMES[idx % 6]
    use_dask = (idx // 6) % 3 == 2
    sig, desc = gen.make_signal(rng, clsname, int(rng.integers(2, 6)), dask=use_dask)
    x = gen.np_data(sig)
    o = "refusal"
    cases = [
        ("add.reduce", lambda: np.add.reduce(sig)),
        ("add.reduce_axis", lambda: np.add.reduce(sig, axis=0)),
        ("sum", lambda: np.sum(sig)),
        ("multiply.accumulate", lambda: np.multiply.accumulate(sig)),
        ("multiply.outer", lambda: np.multiply.outer(sig, sig)),
        ("add.outer_arr", lambda: np.add.outer(sig, np.ones(1))),
        ("add.at", lambda: np.add.at(sig, [0], 1)),
        ("add.reduceat", lambda: np.add.reduceat(sig, [0, 1])),
        ("matmul", lambda: np.matmul(sig, sig)),
        ("matmul_op", lambda: sig @ np.ones(sig.shape[-1])),
        ("rmatmul_op", lambda: np.ones((2, sig.shape[0])) @ sig),
        ("maximum.reduce", lambda: np.maximum.reduce(sig)),
    ]
    label, fn = cases[(idx // 18) % len(cases)]
    ctx.count("oracle[refusal]")
    res, exc = ctx.call(o, fn, expect="any", where=label)
    desc.update(refused=label)
    ctx.describe_case(desc)
    if exc is None:
        if isinstance(res, pb.Signal) or isinstance(res, (np.ndarray, da.Array, np.generic, float, int, complex)):
            ctx.violation(o, f"np {label} on a {clsname} returned {type(res).__name__} instead of being refused", None,
                          {"what": "not_refused", "op": label})
    elif not isinstance(exc, TypeError):
        ctx.violation(o, f"np {label} raised {type(exc).__name__}, expected TypeError", None, {"what": "exc_type", "op": label})
    ctx.bucket("refusal", label, clsname, use_dask)
    # array conversion
    ctx.count("oracle[asarray]")
    for lab, fn2, want in [
        ("asarray", lambda: np.asarray(sig), lambda: np.asarray(x)),
        ("array", lambda: np.array(sig), lambda: np.array(x)),
        ("asarray_c128", lambda: np.asarray(sig, dtype=np.complex128), lambda: np.asarray(x, dtype=np.complex128)),
        ("array_f4" if x.dtype.kind == "f" else "array_c64", lambda: np.array(sig, dtype=np.float32 if x.dtype.kind == "f" else np.complex64),
         lambda: np.array(x, dtype=np.float32 if x.dtype.kind == "f" else np.complex64)),
        ("array_copy", lambda: np.array(sig, copy=True), lambda: np.array(x, copy=True)),
        ("asarray_same_dtype", lambda: np.asarray(sig, dtype=x.dtype), lambda: x),
    ]:
        got, exc = ctx.call("asarray", fn2, where=lab)
        if exc is None:
            w = want()
            if not isinstance(got, np.ndarray) or got.dtype != w.dtype or got.shape != w.shape or not np.array_equal(got, w, equal_nan=True):
                ctx.violation("asarray", f"np {lab}(signal) differs from the same call on its data "
                                         f"({getattr(got, 'dtype', type(got))} vs {w.dtype})", None, {"what": "asarray", "form": lab})
    if not use_dask:
        got, exc = ctx.call("asarray", lambda: np.array(sig, copy=True), where="array_copy_independent")
        if exc is None and np.shares_memory(got, sig.data):
            ctx.violation("asarray", "np.array(signal, copy=True) shares memory with the signal", None, {"what": "copy_shares"})
    if len(sig) != x.shape[0]:
        ctx.violation("asarray", "len(signal) != number of samples", None, {"what": "len"})


def install_universal(ctx):
    UfuncMonitor(ctx).install()
    return probes.detach_all


def workloads(ctx):
    q = ctx.tier == "quick"
    return [("R", 1, wl_R), ("ufunc", len(UFUNCS) * len(ARR) * (1 if q else 30), wl_ufunc),
            ("operators", len(OPERATORS) * 6 * (2 if q else 40), wl_operators),
            ("refusals", 18 * 12 * (1 if q else 10), wl_refusals)]


def setup(ctx):
    UfuncMonitor(ctx).install()
    return probes.detach_all


def finalize(ctx):
    for e in probes.monitor_errors():
        ctx.inconclusive_because("monitor error: " + e[:600])
    ctx.require("oracle[ufunc_values]", 400, "ufunc value oracle")
    ctx.require("oracle[refusal]", 100, "refusal oracle")
    ctx.require("oracle[asarray]", 100, "array conversion oracle")
    ctx.note("ufuncs_enumerated", len(UFUNCS))
