"""C13 - polarisation conversions are unitary, invertible and Stokes-consistent."""

import math

import numpy as np
import astropy.units as u
import dask.array as da
import pulsarbat as pb

from .. import exact, gen, probes, monitors

from ..replay import wl_R

RULE = ("dual-polarisation signals with random complex samples over 12 decades of modulus (plus zeros, purely real/imaginary), c8/c16, "
        "nchan 1-5, trailing dimensions after the polarisation axis, both starting bases, NumPy/Dask. Every to_linear/to_circular/"
        "to_stokes/to_intensity call and every Stokes component access is judged against an independent complex128 evaluation of the "
        "documented formulas (power-relative tolerance), incl. round trips, identity conversions, basis independence of Stokes, "
        "I^2=Q^2+U^2+V^2, I>=0, I = sum_pol to_intensity, component access before/after in-place modification. Non-trivial = "
        "value oracle ran on data with generic complex samples; distinct = (op, basis, dtype, nchan, trailing shape, backend, magnitude class).")
ASSUMPTIONS = [
    "amplitude tolerance 16*eps(dtype)*sqrt(|A|^2+|B|^2) per sample pair, Stokes tolerance 16*eps(dtype)*(|A|^2+|B|^2)",
    "result dtype after a basis change is not part of the property (complex64 input yields complex128)",
]
BUDGET = {"quick": 100, "thorough": 900}
S2 = math.sqrt(2.0)


def eps_of(dt):
    return 2.0 ** -23 if np.dtype(dt) in (np.dtype(np.complex64), np.dtype(np.float32)) else 2.0 ** -52


def split(x):
    x = np.asarray(x).astype(np.complex128)
    return x[:, :, 0], x[:, :, 1]


def ref_linear(x, pol):
    A, B = split(x)
    if pol == "linear":
        return A, B
    return (A + B) / S2, 1j * (A - B) / S2


def ref_circular(x, pol):
    A, B = split(x)
    if pol == "circular":
        return A, B
    return (A - 1j * B) / S2, (A + 1j * B) / S2


def ref_stokes(x, pol):
    X, Y = ref_linear(x, pol)
    XX, YY = np.abs(X) ** 2, np.abs(Y) ** 2
    XY = np.conj(X) * Y
    return np.stack([XX + YY, XX - YY, 2 * XY.real, 2 * XY.imag], axis=2)


def meta_same(ctx, o, a, b, what, feats):
    ma, mb = monitors.meta_of(a), monitors.meta_of(b)
    for k in ("rate", "fc", "bw", "align", "meta", "len", "nchan"):
        if ma.get(k) != mb.get(k):
            ctx.violation(o, f"{what} changed {k}: {ma.get(k)!r} -> {mb.get(k)!r}", None, dict(feats, what="meta_" + k))
    if not monitors.same_time(ma["start"], mb["start"], 0):
        ctx.violation(o, f"{what} changed start_time", None, dict(feats, what="meta_start"))
    if ma["dask"] != mb["dask"]:
        ctx.violation(o, f"{what} changed the data container", None, dict(feats, what="container"))


class PolMonitor:
    def __init__(self, ctx):
        self.ctx = ctx

    def install(self):
        D = pb.DualPolarizationSignal
        for n in ("to_linear", "to_circular", "to_stokes"):
            probes.attach(D, n, self, "DualPolarizationSignal." + n)
        probes.attach(pb.BasebandSignal, "to_intensity", self, "BasebandSignal.to_intensity")
        return self

    def pre(self, point, args, kwargs):
        return None

    def post(self, point, args, kwargs, tok, out, exc):
        ctx = self.ctx
        z = args[0]
        if exc is not None:
            ctx.unexpected_exception("pol", exc, point.label)
            return
        name = point.name
        o = "pol_" + name
        x = gen.np_data(z)
        if x.size > 1 << 20:
            ctx.count("skipped")
            return
        if not np.all(np.isfinite(x)):
            # flagged (NaN) / saturated (inf) samples: the formulas cannot be judged, but "already in the requested basis" is the
            # identity for every sample value - a flag in one polarisation must not spread to the other
            ctx.count("skipped")
            if point.name in ("to_linear", "to_circular") and isinstance(out, pb.Signal) and z.pol_type == point.name[3:]:
                ctx.count("oracle[identity_nonfinite]")
                y = gen.np_data(out)
                if y.shape != x.shape or not np.array_equal(y, x, equal_nan=True):
                    ctx.violation("pol_" + point.name, f"{point.name} on a {z.pol_type} signal altered the samples (must be the identity): "
                                  f"{int(np.sum(~np.isfinite(x)))} non-finite input samples, {int(np.sum(~np.isfinite(y)))} in the output",
                                  None, {"op": point.name, "what": "identity_nonfinite"})
            return
        feats = {"op": name, "dtype": str(z.dtype), "trailing": z.ndim > 3, "dask": isinstance(z.data, da.Array)}
        ctx.count(f"oracle[{o}]")
        eps = eps_of(z.dtype)
        if name == "to_intensity":
            if type(out) is not pb.IntensitySignal:
                ctx.violation(o, f"to_intensity returned {type(out).__name__}", None, dict(feats, what="class"))
                return
            meta_same(ctx, o, z, out, name, feats)
            y = gen.np_data(out)
            want = np.abs(x.astype(np.complex128)) ** 2
            if y.shape != want.shape or np.any(np.abs(y - want) > 8 * eps * want + 1e-300):
                ctx.violation(o, "to_intensity != |z|^2", None, dict(feats, what="value"))
            if np.any(y < 0):
                ctx.violation(o, "negative intensity", None, dict(feats, what="negative"))
            return
        pol = z.pol_type
        feats["basis"] = pol
        if name in ("to_linear", "to_circular"):
            target = name[3:]
            if type(out) is not type(z):
                ctx.violation(o, f"{name} returned {type(out).__name__}", None, dict(feats, what="class"))
                return
            if out.pol_type != target:
                ctx.violation(o, f"{name} result has pol_type {out.pol_type!r}", None, dict(feats, what="flag"))
            if hasattr(z, "station") and getattr(out, "station", None) != z.station:
                ctx.violation(o, f"{name} dropped the subclass attribute station={z.station!r} (got {getattr(out, 'station', None)!r})", None,
                              dict(feats, what="subclass_attr"))
            meta_same(ctx, o, z, out, name, feats)
            y = gen.np_data(out)
            if y.shape != x.shape:
                ctx.violation(o, f"{name} changed the shape", None, dict(feats, what="shape"))
                return
            if pol == target:
                if not np.array_equal(y, x):
                    ctx.violation(o, f"{name} on a {pol} signal altered the samples (must be the identity)", None, dict(feats, what="identity"))
                return
            A, B = (ref_linear if target == "linear" else ref_circular)(x, pol)
            P = np.abs(A) ** 2 + np.abs(B) ** 2
            tol = 16 * eps * np.sqrt(P) + 1e-300
            ya, yb = split(y)
            bad = (np.abs(ya - A) > tol) | (np.abs(yb - B) > tol)
            if np.any(bad):
                i = tuple(int(v) for v in np.argwhere(bad)[0])
                ctx.violation(o, f"{name} of a {pol} signal: sample {i} = ({ya[i]!r}, {yb[i]!r}), documented transform gives ({A[i]!r}, {B[i]!r})",
                              None, dict(feats, what="value"))
                return
            # unitary: power per sample preserved
            Py = np.abs(ya) ** 2 + np.abs(yb) ** 2
            if np.any(np.abs(Py - P) > 32 * eps * P + 1e-300):
                ctx.violation(o, f"{name} does not preserve power per sample", None, dict(feats, what="power"))
            ctx.count("nontrivial[pol]")
        else:
            if type(out) is not pb.FullStokesSignal:
                ctx.violation(o, f"to_stokes returned {type(out).__name__}", None, dict(feats, what="class"))
                return
            meta_same(ctx, o, z, out, name, feats)
            y = gen.np_data(out)
            want = ref_stokes(x, pol)
            if y.shape != want.shape:
                ctx.violation(o, f"to_stokes shape {y.shape}, expected {want.shape}", None, dict(feats, what="shape"))
                return
            P = want[:, :, 0]
            tol = 16 * eps * P + 1e-300
            err = np.abs(y - want)
            bad = err > tol[:, :, None]
            if np.any(bad):
                i = tuple(int(v) for v in np.argwhere(bad)[0])
                ctx.violation(o, f"to_stokes of a {pol} signal: component {'IQUV'[i[2]]} at {i[:2] + i[3:]} = {y[i]!r}, formula gives {want[i]!r} "
                                 f"(I = {P[(i[0], i[1]) + i[3:]]!r})", None, dict(feats, what="value", component="IQUV"[i[2]]))
                return
            I, Q, U, V = (y[:, :, k].astype(np.float64) for k in range(4))
            if np.any(I < 0):
                ctx.violation(o, "Stokes I < 0", None, dict(feats, what="negative_I"))
            if np.any(np.abs(I ** 2 - (Q ** 2 + U ** 2 + V ** 2)) > 64 * eps * I ** 2 + 1e-300):
                ctx.violation(o, "I^2 != Q^2+U^2+V^2 for fully polarised samples", None, dict(feats, what="polarised_identity"))
            ctx.count("nontrivial[pol]")


class StationSignal(pb.DualPolarizationSignal):
    """A user subclass with one more constructor keyword, the way the class documentation invites (Signal.like() forwards it)."""

    def __init__(self, z, /, *, sample_rate, center_freq, pol_type, station="?", start_time=None, freq_align="center", meta=None):
        super().__init__(z, sample_rate=sample_rate, center_freq=center_freq, pol_type=pol_type, start_time=start_time,
                         freq_align=freq_align, meta=meta)
        self._station = station

    @property
    def station(self):
        return self._station


def make_dp(rng, n, nchan, trailing, dtype, pol, use_dask, magnitude):
    shape = (n, nchan, 2) + trailing
    x = rng.standard_normal(shape) + 1j * rng.standard_normal(shape)
    if magnitude == "decades":
        x = x * 10.0 ** rng.uniform(-6, 6, size=shape)
    elif magnitude == "special":
        mask = rng.integers(0, 5, size=shape)
        x = np.where(mask == 0, 0, np.where(mask == 1, x.real, np.where(mask == 2, 1j * x.imag, x)))
    elif magnitude == "unit":
        x = np.exp(2j * np.pi * rng.random(shape))
    x = x.astype(dtype)
    if gen._side_rng(rng).random() < 0.08:
        # a flagged / saturated sample in one polarisation only
        srng = gen._side_rng(rng)
        x[int(srng.integers(n)), int(srng.integers(nchan)), int(srng.integers(2))] = [np.nan, complex(np.inf, 0), complex(0, np.nan), -np.inf][int(srng.integers(4))]
    # the basis name as the caller may hold it: a literal, a string built at run time, a NumPy str scalar, or after pickling
    how = int(rng.integers(5))
    pol_arg = [pol, "".join(list(pol)), np.str_(pol), pol.upper().lower(), pol][how]
    # memory layouts a reader or a user can hand over: transposed (GUPPI), column-major, flipped band, every other sample
    sig, desc = gen.make_signal(rng, "DualPolarizationSignal", n, data=x, pol=pol_arg, dask=use_dask,
                                rate=gen.rand_rate(rng, lo=0, hi=8), mem=gen.pick(rng, ["C", "C", "F", "strided", "neg", "offset", "readonly", "transposed"]))
    sub = gen._side_rng(rng).random() < 0.2
    if sub:
        with probes.quiet():
            sig = StationSignal.like(sig, station="ST%d" % int(rng.integers(100)))
    if how == 4:
        import pickle
        sig = pickle.loads(pickle.dumps(sig))
    desc.update(pol=pol, magnitude=magnitude, subclass=bool(sub), pol_string_kind=["literal", "joined", "np.str_", "upper.lower", "pickled"][how])
    return sig, desc


def wl_pol(ctx, idx, rng):
    pol = ["linear", "circular"][idx % 2]
    dtype = [np.complex128, np.complex64][(idx // 2) % 2]
    magnitude = ["normal", "decades", "special", "unit"][(idx // 4) % 4]
    nchan = int(rng.integers(1, 6))
    trailing = gen.pick(rng, [(), (), (2,), (3,), (2, 2), (1,)])
    n = int(rng.integers(1, 12))
    use_dask = rng.random() < 0.25
    sig, desc = make_dp(rng, n, nchan, trailing, dtype, pol, use_dask, magnitude)
    ctx.describe_case(desc)
    ctx.sample(desc)
    o = "pol_sequence"
    if rng.random() < 0.3:
        # history: an assignment of a basis name that does not exist is refused and the signal keeps the basis it has
        bad = gen.pick(rng, ["Circular", "CIRC", "lin", None, "", 1, b"linear"])
        ctx.count("history[refused_pol_type]")
        try:
            sig.pol_type = bad
        except ValueError:
            pass
        except Exception as e:
            ctx.violation(o, f"pol_type = {bad!r} raised {type(e).__name__}, expected ValueError", None, {"what": "setter_exc_type"})
        else:
            ctx.violation(o, f"pol_type = {bad!r} was accepted", None, {"what": "setter_accepted"})
        with probes.quiet():
            now = sig.pol_type
        if now != pol:
            ctx.violation(o, f"a refused assignment pol_type = {bad!r} left the {pol} signal labelled {now!r}: later conversions use the wrong basis",
                          None, {"what": "refused_assignment_changed_basis"})
            return
    lin, e1 = ctx.call(o, sig.to_linear)
    cir, e2 = ctx.call(o, sig.to_circular)
    if e1 is not None or e2 is not None:
        return
    # round trip through the other basis
    other = cir if pol == "linear" else lin
    back, e3 = ctx.call(o, other.to_linear if pol == "linear" else other.to_circular)
    eps = eps_of(dtype)
    with probes.quiet():
        x = gen.np_data(sig).astype(np.complex128)
    if e3 is None:
        ctx.count("oracle[roundtrip]")
        with probes.quiet():
            y = gen.np_data(back).astype(np.complex128)
        P = np.sqrt(np.abs(x[:, :, :1]) ** 2 + np.abs(x[:, :, 1:]) ** 2)
        if y.shape != x.shape or np.any(np.abs(y - x) > 32 * eps * P + 1e-300):
            ctx.violation(o, "converting to the other basis and back does not restore the samples", None, {"what": "roundtrip"})
        if back.pol_type != pol:
            ctx.violation(o, "round trip ends in the wrong basis flag", None, {"what": "roundtrip_flag"})
    # Stokes identical from either basis
    s1, e4 = ctx.call(o, lin.to_stokes)
    s2, e5 = ctx.call(o, cir.to_stokes)
    s0, e6 = ctx.call(o, sig.to_stokes)
    if e4 is None and e5 is None and e6 is None:
        ctx.count("oracle[stokes_basis_independent]")
        with probes.quiet():
            a, b, c = gen.np_data(s1), gen.np_data(s2), gen.np_data(s0)
        P = a[:, :, :1]
        tol = 64 * eps * np.abs(P) + 1e-300
        if np.any(np.abs(a - b) > tol) or np.any(np.abs(a - c) > tol):
            ctx.violation(o, "Stokes parameters differ depending on the basis they are computed from", None, {"what": "basis_dependent"})
        if use_dask:
            # detected powers of different lazy signals evaluated in one graph (differences, concatenations of detected blocks)
            its = []
            for s_ in (lin, cir, sig):
                it_, e_ = ctx.call(o, s_.to_intensity)
                if e_ is None:
                    its.append(it_)
            monitors.joint_compute_check(ctx, o, its + [s1, s2], {"dask": True}, "to_intensity / to_stokes results of different signals")
        # I equals to_intensity summed over polarisations
        it, e7 = ctx.call(o, sig.to_intensity)
        if e7 is None:
            with probes.quiet():
                tot = gen.np_data(it).sum(axis=2)
            if np.any(np.abs(tot - c[:, :, 0]) > 16 * eps * np.abs(c[:, :, 0]) + 1e-300):
                ctx.violation(o, "Stokes I != to_intensity summed over the polarisation axis", None, {"what": "I_vs_intensity"})
        # names that are not one of I, Q, U, V are refused (never answered with some component)
        badkey = gen.pick(rng, ["IQ", "QU", "UV", "IQUV", "", "i", "q", "X", "II", " I"])
        rb, eb = ctx.call(o, lambda: s0[badkey], expect="any", where=f"stokes[{badkey!r}]")
        ctx.count("oracle[stokes_bad_key]")
        if eb is None:
            ctx.violation(o, f"stokes[{badkey!r}] returned a {type(rb).__name__} instead of raising KeyError", None, {"what": "bad_key_accepted"})
        elif not isinstance(eb, (KeyError, IndexError)):
            ctx.violation(o, f"stokes[{badkey!r}] raised {type(eb).__name__}, expected KeyError", None, {"what": "bad_key_exc_type"})
        # component access by name, before and after an in-place modification of the Stokes signal
        key = "IQUV"[int(rng.integers(4))]
        k = "IQUV".index(key)
        for phase in ("fresh", "after_inplace"):
            c1, e8 = ctx.call(o, lambda: s0[key])
            c2, e9 = ctx.call(o, lambda: getattr(s0, "stokes" + key))
            if e8 is None and e9 is None:
                ctx.count("oracle[component_access]")
                with probes.quiet():
                    full = gen.np_data(s0)
                    g1, g2 = gen.np_data(c1), gen.np_data(c2)
                want = full[:, :, k]
                if g1.shape != want.shape or not np.array_equal(g1, want, equal_nan=True) or not np.array_equal(g2, want, equal_nan=True):
                    ctx.violation(o, f"component access {key!r} ({phase}) does not return component {k} of the signal "
                                     f"(by key equal: {np.array_equal(g1, want, equal_nan=True) if g1.shape == want.shape else 'shape'}, "
                                     f"by attribute equal: {np.array_equal(g2, want, equal_nan=True) if g2.shape == want.shape else 'shape'})",
                                  None, {"what": "component", "phase": phase})
                if type(c1) is not pb.IntensitySignal or type(c2) is not pb.IntensitySignal:
                    ctx.violation(o, "Stokes component is not an IntensitySignal", None, {"what": "component_class"})
                for c_ in (c1, c2):
                    if isinstance(c_, pb.Signal) and isinstance(c_.data, da.Array) != isinstance(s0.data, da.Array):
                        ctx.violation(o, f"Stokes component of a {type(s0.data).__name__}-backed signal is {type(c_.data).__name__}-backed "
                                         "(the selection computed / changed the container)", None, {"what": "component_container"})
                        break
            if phase == "fresh":
                if isinstance(s0.data, da.Array):
                    break
                if e8 is None and isinstance(c1, pb.Signal):
                    # a component handed out is the caller's to calibrate in place: the Stokes signal it came from keeps its values
                    with probes.quiet():
                        keep = gen.np_data(s0).copy()
                        try:
                            np.multiply(c1, 0.5, out=c1)
                        except Exception:
                            pass
                        changed = not np.array_equal(gen.np_data(s0), keep, equal_nan=True)
                    ctx.count("oracle[component_independent]")
                    if changed:
                        ctx.violation(o, f"scaling the component s[{key!r}] in place changed the Stokes signal it was taken from", None,
                                      {"what": "component_aliases_parent"})
                ctx.call(o, lambda: np.multiply(s0, 3.0, out=s0), where="np.multiply(out=)")
    # history: relabelling a conversion *result* through its public setters must leave the signal it came from as it was
    with probes.quiet():
        m0 = monitors.meta_of(sig)
        flip = {"linear": "circular", "circular": "linear"}
        for r_ in (lin, cir):
            r_.pol_type = flip[r_.pol_type]
            r_.center_freq = r_.center_freq + 7 * r_.chan_bw
            r_.start_time = None
            r_.meta = {"relabelled": True}
        m1 = monitors.meta_of(sig)
    ctx.count("oracle[result_independent]")
    for k in ("pol", "fc", "meta", "rate", "align"):
        if m0.get(k) != m1.get(k):
            ctx.violation(o, f"changing {k} of a to_linear()/to_circular() result through its setter changed the original signal: "
                             f"{m0.get(k)!r} -> {m1.get(k)!r}", None, {"what": "result_aliases_input", "attr": k})
    if not monitors.same_time(m0["start"], m1["start"], 0):
        ctx.violation(o, "changing start_time of a conversion result changed the original signal", None, {"what": "result_aliases_input", "attr": "start"})
    ctx.bucket(pol, np.dtype(dtype).name, nchan, trailing, "dask" if use_dask else "np", magnitude)


def install_universal(ctx):
    PolMonitor(ctx).install()
    return probes.detach_all


def workloads(ctx):
    q = ctx.tier == "quick"
    return [("R", 1, wl_R), ("pol", 1280 if q else 25600, wl_pol)]


def setup(ctx):
    PolMonitor(ctx).install()
    return probes.detach_all


def finalize(ctx):
    for e in probes.monitor_errors():
        ctx.inconclusive_because("monitor error: " + e[:600])
    ctx.require("oracle[pol_to_stokes]", 300, "Stokes formula oracle")
    ctx.require("oracle[pol_to_circular]", 150, "to_circular oracle")
    ctx.require("oracle[pol_to_linear]", 150, "to_linear oracle")
    ctx.require("oracle[component_access]", 300, "component access oracle")
