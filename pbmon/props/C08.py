"""C08 - polyco prediction equals the tempo formula on every entry's span."""

import io
import math
import os
from fractions import Fraction as F

import numpy as np
import astropy.units as u
from astropy.time import Time
import pulsarbat as pb
from pulsarbat import Phase

from .. import exact, gen, probes

RULE = ("tempo-style polyco texts written by the workload from generated decimal strings (1-12 entries, NCOEFF 1-15 incl. non-multiples of "
        "3, span 5-360 min, F0 0.1-700 Hz with 60*F0*span/2 <= 2^20 cycles, RPHASE up to 1e12 with 6-digit fraction, D/E exponents, "
        "signed coefficients, TMID with non-dyadic decimals, spacing = span / overlap / gaps / +-0.5 ms; entries deliberately not "
        "continuations of each other) read through StringIO and file paths, plus tests/data/timing.dat; entry subsets. Monitors on "
        "PhasePredictor.__call__/f0/phasepol/time_at/intervals judge every call against the formula evaluated with fractions.Fraction "
        "on the same decimal strings and the exact two-double time difference. Times: scalar and arrays at centres, edges +-eps, "
        "inside gaps, outside, in UTC/TAI/TT. Non-trivial = a judged in-span evaluation; distinct = (n entries, NCOEFF mod 3, spacing "
        "kind, time kind, method, scalar/array, source).")
ASSUMPTIONS = [
    "tolerance 1e-8 cycles for phases (the property's own), 1e-6 cycles for the recentred phasepol polynomial (no figure given; float64 basis conversion), relative 1e-9 (+ floor) for frequency derivatives, 1e-8/F0 s for time_at",
    "a time within 2 us (float64 MJD used by the entry search) of a boundary between entries may be evaluated from either entry",
    "time_at is only asked to invert phases produced by the predictor itself",
]
BUDGET = {"quick": 110, "thorough": 1200}
PHASE_TOL = F(1, 10 ** 8)
REGISTRY = {}     # id(predictor) -> model


class Entry:
    def __init__(self, tmid_s, rphase_s, f0_s, span_min, coeff_s):
        self.tmid_s, self.rphase_s, self.f0_s, self.span = tmid_s, rphase_s, f0_s, span_min
        self.coeff_s = coeff_s
        self.tmid = Time(tmid_s, format="mjd", precision=9)
        self.rphase = F(rphase_s)
        self.f0 = F(f0_s)
        self.coeffs = [F(c.lower().replace("d", "e")) for c in coeff_s]
        self.poly = list(self.coeffs)
        while len(self.poly) < 2:
            self.poly.append(F(0))
        self.poly[1] += 60 * self.f0          # cycles per minute^i
        self.tmid_days = exact.time_days_tai(self.tmid)

    def dt_min(self, t_days_tai):
        return (t_days_tai - self.tmid_days) * 1440

    def contains(self, t_days_tai, slack_min=F(0)):
        return abs(self.dt_min(t_days_tai)) <= F(self.span, 2) + slack_min

    def phase(self, t_days_tai):
        dt = self.dt_min(t_days_tai)
        acc = F(0)
        for c in reversed(self.poly):
            acc = acc * dt + c
        return self.rphase + acc

    def deriv(self, t_days_tai, n):
        """n-th derivative of phase w.r.t. time in seconds (cycles / s^n)."""
        dt = self.dt_min(t_days_tai)
        co = list(self.poly)
        for _ in range(n):
            co = [i * c for i, c in enumerate(co)][1:]
        acc = F(0)
        for c in reversed(co):
            acc = acc * dt + c
        return acc / F(60) ** n


def fmt_coeff(rng, v):
    s = f"{v:.17e}"
    if rng.random() < 0.3:
        s = s.replace("e", gen.pick(rng, ["D", "d", "E"]))
    return s


def make_polyco(rng, nent=None, spacing=None, monotonic=False):
    nent = nent or int(gen.pick(rng, [1, 1, 2, 3, 5, 8, 12]))
    ncoeff = int(gen.pick(rng, [1, 2, 3, 4, 5, 7, 8, 9, 11, 12, 13, 15]))
    span = int(gen.pick(rng, [5, 15, 30, 60, 90, 120, 360]))
    f0max = min(700.0, 2 ** 20 / (60.0 * span / 2))
    f0 = 10 ** rng.uniform(-1, math.log10(f0max))
    f0_s = f"{f0:.12f}"
    spacing = spacing or gen.pick(rng, ["span", "overlap", "gap", "plus_half_ms", "minus_half_ms", "big_gap"])
    day0 = int(rng.integers(58200, 60500))
    frac0 = gen.pick(rng, [0.0, 0.1, 0.33333333333, 0.9375, float(np.round(rng.random(), 11))])
    tmid0 = F(f"{day0}") + F(f"{frac0:.11f}")
    step = {"span": F(span), "overlap": F(span) * F(gen.pick(rng, [1, 2, 3]), 4), "gap": F(span) + F(int(rng.integers(1, 30))),
            "plus_half_ms": F(span) + F(1, 120000), "minus_half_ms": F(span) - F(1, 120000), "big_gap": F(span) * 3}[spacing]
    entries, lines = [], []
    psr = gen.pick(rng, ["B1937+21", "J0437-4715", "B0531+21"])
    obs = gen.pick(rng, ["ao", "gb", "7"])
    freq_s = f"{rng.uniform(300, 3000):.3f}"
    rph = int(10 ** rng.uniform(0, 12))
    for k in range(nent):
        tm = tmid0 + k * step / 1440
        # decimal string with 11 decimals (rounded exactly)
        tm_s = f"{int(tm)}." + f"{int(round((tm - int(tm)) * 10 ** 11)):011d}"
        if monotonic:
            rph_k = rph + int(round(float(F(f0_s) * 60 * k * step))) + 1000 * k
        else:
            rph_k = int(10 ** rng.uniform(0, 12))
        frac6 = int(rng.integers(0, 10 ** 6))
        if rng.random() < 0.15:
            frac6 = int(gen.pick(rng, [999999, 999990, 999995, 1, 0, 500000]))      # fractions that round across a whole cycle in one double
        rphase_s = f"{rph_k}.{frac6:06d}"
        coeffs = []
        for i in range(ncoeff):
            mag = [1e-3, 2.5, 1e-4][i] if i < 3 else 10.0 ** (-4 - 2.2 * (i - 2))
            coeffs.append(float(rng.uniform(-1, 1)) * mag)
        if f0 * 60 < 12 and ncoeff > 1:
            coeffs[1] *= 0.1
        cs = [fmt_coeff(rng, c) for c in coeffs]
        e = Entry(tm_s, rphase_s, f0_s, span, cs)
        entries.append(e)
        l1 = f"{psr:<10s} {'7-May-18':>9s}{'0.00':>11s}{tm_s:>20s}{'71.020168':>21s} {'-0.713':>6s}{'-6.294':>7s}"
        l2 = f"{rphase_s:>20s}{f0_s:>18s}{obs:>5s}{span:>5d}{ncoeff:>5d}{freq_s:>10s}"
        lines += [l1, l2]
        for j in range(0, ncoeff, 3):
            lines.append("".join(f"{c:>25s}" for c in cs[j:j + 3]))
    text = "\n".join(lines) + "\n"
    return text, entries, {"nent": nent, "ncoeff": ncoeff, "span": span, "f0": f0_s, "spacing": spacing}


class Model:
    def __init__(self, entries):
        self.entries = sorted(entries, key=lambda e: e.tmid_days)

    def candidates(self, t_days, slack_min=F(2, 60 * 10 ** 6)):
        """Entries whose span contains t (2 us slack)."""
        return [e for e in self.entries if e.contains(t_days, slack_min)]

    def intervals(self):
        iv = sorted([(e.tmid_days - F(e.span, 2880), e.tmid_days + F(e.span, 2880)) for e in self.entries])
        out = [list(iv[0])]
        for a, b in iv[1:]:
            if a <= out[-1][1] + F(1, 86400 * 1000):        # gap <= 1 ms
                out[-1][1] = max(out[-1][1], b)
            else:
                out.append([a, b])
        return out


def scalar_times(t):
    if t.isscalar:
        return [t]
    return [t[i] for i in range(t.size)] if t.ndim == 1 else [t.ravel()[i] for i in range(t.size)]


class PredictorMonitor:
    def __init__(self, ctx):
        self.ctx = ctx

    def install(self):
        P = pb.PhasePredictor
        probes.attach(P, "__call__", self, "PhasePredictor.__call__")
        probes.attach(P, "f0", self, "PhasePredictor.f0")
        probes.attach(P, "phasepol", self, "PhasePredictor.phasepol")
        probes.attach(P, "time_at", self, "PhasePredictor.time_at")
        probes.attach_getter(P, "intervals", self, "PhasePredictor.intervals")
        return self

    def pre(self, point, args, kwargs):
        return None

    def post(self, point, args, kwargs, tok, res, exc):
        ctx = self.ctx
        pred = args[0]
        model = REGISTRY.get(id(pred))
        if model is None:
            return
        name = point.name
        o = "predictor_" + name.strip("_")
        if name == "intervals":
            if exc is not None:
                ctx.unexpected_exception(o, exc, "intervals")
                return
            ctx.count("oracle[intervals]")
            want = model.intervals()
            if len(res) != len(want):
                ctx.violation(o, f"{len(res)} validity intervals, expected {len(want)} (spans merged where gap <= 1 ms)", None,
                              {"what": "count"})
                return
            for (a, b), (wa, wb) in zip(res, want):
                if abs(exact.time_days_tai(a) - wa) * 86400 > F(1, 10 ** 6) or abs(exact.time_days_tai(b) - wb) * 86400 > F(1, 10 ** 6):
                    ctx.violation(o, f"interval [{a.mjd!r}, {b.mjd!r}] differs from the merged spans [{float(wa)!r}, {float(wb)!r}] (TAI days)",
                                  None, {"what": "edges"})
                    return
            return
        if name in ("__call__", "f0", "phasepol"):
            t = args[1] if len(args) > 1 else kwargs.get("times", kwargs.get("t0"))
            if not isinstance(t, Time):
                return
            n = (args[2] if len(args) > 2 else kwargs.get("n", 0)) if name == "f0" else 0
            if name == "phasepol" and not t.isscalar:
                if exc is None or not isinstance(exc, ValueError):
                    ctx.violation(o, "phasepol(array) did not raise ValueError", None, {"what": "array"})
                return
            ts = scalar_times(t)
            tdays = [exact.time_days_tai(x) for x in ts]
            cands = [model.candidates(td) for td in tdays]
            # "inside" for the purpose of demanding acceptance: more than 2 us away from the span edges (the library's own
            # edges are tmid +- span/2 evaluated in two-double Time arithmetic)
            strict_in = [bool(model.candidates(td, -F(2, 60 * 10 ** 6))) for td in tdays]
            any_out = any(not c for c in cands)
            feats = {"method": name, "scalar": t.isscalar, "scale": t.scale, "nent": len(model.entries)}
            if exc is not None:
                if any_out:
                    ctx.count("oracle[refusal]")
                    if not isinstance(exc, ValueError):
                        ctx.violation(o, f"time outside every span raised {type(exc).__name__}, expected ValueError", None,
                                      dict(feats, what="exc_type"))
                elif all(strict_in):
                    ctx.unexpected_exception(o, exc, f"{name} inside a span", dict(feats, what="raised"))
                else:
                    ctx.count("ambiguous[span_edge]")
                return
            if any_out:
                ctx.count("oracle[refusal]")
                ctx.violation(o, f"{name} accepted a time outside every entry's span (should raise ValueError)", None,
                              dict(feats, what="missing_refusal"))
                return
            ctx.count(f"oracle[{o}]")
            if name == "__call__":
                if not isinstance(res, Phase):
                    ctx.violation(o, f"prediction is a {type(res).__name__}, not a Phase", None, dict(feats, what="type"))
                    return
                got, _ = exact.phase_fraction(res)
                if len(got) != len(ts) or tuple(res.shape) != tuple(t.shape):
                    ctx.violation(o, f"prediction shape {res.shape} for times of shape {t.shape}", None, dict(feats, what="shape"))
                    return
                for g, td, cs in zip(got, tdays, cands):
                    errs = [abs(g - e.phase(td)) for e in cs]
                    ctx.stat_max("phase_err_over_1e-8", float(min(errs) / PHASE_TOL))
                    if min(errs) > PHASE_TOL:
                        e0 = cs[0]
                        # would another (non-containing) entry explain it?
                        other = [e for e in model.entries if e not in cs and abs(g - e.phase(td)) <= PHASE_TOL * 100]
                        ctx.violation(o, f"p(t) = {float(g)!r}, tempo formula from the containing entry (TMID {e0.tmid_s}) gives "
                                         f"{float(e0.phase(td))!r}: error {float(min(errs)):.3e} cycles (DT = {float(e0.dt_min(td)):.6f} min)"
                                         f"{'; matches a NON-containing entry TMID ' + other[0].tmid_s if other else ''}", None,
                                      dict(feats, what="phase", wrong_entry=bool(other)))
                        return
                ctx.count("nontrivial[predictor]")
            elif name == "f0":
                try:
                    vals = np.atleast_1d(res.to_value(u.cycle / u.s ** (n + 1))).ravel()
                except Exception:
                    ctx.violation(o, f"f0(n={n}) has unit {getattr(res, 'unit', None)}", None, dict(feats, what="unit"))
                    return
                for v, td, cs in zip(vals, tdays, cands):
                    wants = [e.deriv(td, n + 1) for e in cs]
                    tol = [abs(w) * F(1, 10 ** 9) + PHASE_TOL / (F(e.span * 30) ** (n + 1)) for w, e in zip(wants, cs)]
                    if all(abs(F(float(v)) - w) > t_ for w, t_ in zip(wants, tol)):
                        ctx.violation(o, f"f0(t, n={n}) = {v!r}, exact derivative {float(wants[0])!r} cycle/s^{n + 1}", None,
                                      dict(feats, what="derivative", n=n))
                        return
                ctx.count("nontrivial[predictor]")
            else:
                pol, ref = res
                rv, _ = exact.phase_fraction(ref)
                if rv[0].denominator != 1:
                    ctx.violation(o, f"phasepol reference phase {float(rv[0])!r} is not an integer", None, dict(feats, what="ref_int"))
                p0 = float(pol(0))
                if not (-1e-9 <= p0 < 1 + 1e-9):
                    ctx.violation(o, f"phasepol polynomial at 0 is {p0!r}, not in [0, 1)", None, dict(feats, what="pol0"))
                td, cs = tdays[0], cands[0]
                ok_any = False
                bads = []
                for e in cs:
                    good = True
                    for x in (0.0, 1.0, -1.0, 17.5, -29.25, e.span * 10.0, -e.span * 10.0):
                        td2 = td + F(x) / 86400
                        if not e.contains(td2):
                            continue
                        want = e.phase(td2)
                        got = rv[0] + F(float(pol(x)))
                        # the property gives no figure for the recentred polynomial; converting a degree-15 polynomial to a
                        # shifted power basis in float64 costs precision, so 1e-6 cycles is demanded here (wrong entry / wrong
                        # shift / lost term show up at >= 1e-3)
                        if abs(got - want) > PHASE_TOL * 100:
                            good = False
                            bad_e = (x, float(got), float(want), float(abs(got - want)))
                    if good:
                        ok_any = True
                    else:
                        bads.append(bad_e)
                if not ok_any:
                    bad = min(bads, key=lambda b: b[3])
                    ctx.violation(o, f"ref + pol(x) at x={bad[0]} s gives {bad[1]!r}, prediction {bad[2]!r} (error {bad[3]:.3e} cycles)", None,
                                  dict(feats, what="recentred"))
                ctx.count("nontrivial[predictor]")
        elif name == "time_at":
            ph = args[1] if len(args) > 1 else kwargs.get("phase")
            info = getattr(self, "expect_time", None)
            if info is None:
                return
            t_true, f0v, in_range = info
            ctx.count("oracle[time_at]")
            if not in_range:
                if exc is None or not isinstance(exc, ValueError):
                    ctx.violation(o, f"time_at(phase outside the predictor range) -> {type(exc).__name__ if exc else 'a result'}, expected ValueError",
                                  None, {"what": "missing_refusal"})
                return
            if exc is not None:
                ctx.unexpected_exception(o, exc, "time_at(p(t))", {"what": "raised"})
                return
            d = abs(exact.time_diff_s(res, t_true))
            tol = PHASE_TOL * 2 / F(float(f0v)) + exact.TIME_TOL_S
            if d > tol:
                ctx.violation(o, f"time_at(p(t)) is {float(d):.3e} s away from t (tolerance {float(tol):.3e} s)", None, {"what": "inverse"})
            ctx.count("nontrivial[predictor]")


def build(ctx, rng, text, entries, via):
    o = "from_polyco"
    if via == "stringio":
        pred, exc = ctx.call(o, pb.PhasePredictor.from_polyco, io.StringIO(text), where="from_polyco(StringIO)")
    else:
        # tempo always writes "polyco.dat": half of the files reuse that one path (rewritten for every predictor), the others are fresh
        path = os.path.join(ctx.scratch, "polyco.dat" if rng.random() < 0.5 else f"polyco-{int(rng.integers(1 << 30))}.dat")
        with open(path, "w") as fh:
            fh.write(text)
        if via == "pathlib":
            import pathlib
            path = pathlib.Path(path)
        pred, exc = ctx.call(o, pb.PhasePredictor.from_polyco, path, where="from_polyco(path)")
    if exc is not None:
        return None
    ctx.count("oracle[from_polyco]")
    if len(pred) != len(entries):
        ctx.violation(o, f"{len(pred)} entries parsed, file has {len(entries)}", None, {"what": "count"})
        return None
    return pred


TIME_KINDS = ["centre", "inside", "edge_in", "edge_out", "gap", "outside", "array_mixed_in", "array_with_out"]


def pick_time(rng, model, kind, scale):
    ents = model.entries
    e = ents[int(rng.integers(len(ents)))]
    half = e.span / 2.0
    if kind == "centre":
        off = 0.0
    elif kind == "inside":
        off = float(rng.uniform(-half, half)) * 0.98
    elif kind == "edge_in":
        off = float(gen.pick(rng, [-1, 1])) * (half - float(gen.pick(rng, [1e-3, 1e-5, 0.5])))
    elif kind == "edge_out":
        off = float(gen.pick(rng, [-1, 1])) * (half + float(gen.pick(rng, [1e-3, 0.05, 0.6])))
    elif kind == "gap":
        off = half + float(rng.uniform(0.01, 5))
    else:
        off = float(gen.pick(rng, [-1, 1])) * (half * 4 + 1e4)
    t = e.tmid + off * u.min
    if scale != "utc":
        t = getattr(t, scale)
    return t


def wl_predict(ctx, idx, rng):
    via = ["stringio", "path", "stringio", "pathlib", "stringio", "path"][idx % 6]
    text, entries, desc = make_polyco(rng)
    model = Model(entries)
    pred = build(ctx, rng, text, entries, via)
    if pred is None:
        return
    subset = False
    parent = None
    if len(entries) > 2 and rng.random() < 0.35:
        sel = sorted(int(i) for i in rng.choice(len(entries), size=int(rng.integers(1, len(entries))), replace=False))
        order = int(rng.integers(3))        # 0: subset of a fresh parent, 1: parent used first, 2: subset used first, then the parent again
        REGISTRY[id(pred)] = model
        if order == 1:
            try:
                pred.intervals
                pred(pick_time(rng, model, "inside", "utc"))
            except Exception:
                pass
        sub, exc = ctx.call("from_polyco", lambda: pred[sel], where="predictor[subset]")
        if exc is None:
            parent, parent_model = pred, model
            pred = sub
            model = Model([parent_model.entries[i] for i in sel])
            subset = True
            desc["subset_order"] = order
    REGISTRY[id(pred)] = model
    desc.update(via=via, subset=subset)
    kind = TIME_KINDS[idx % len(TIME_KINDS)]
    scale = gen.pick(rng, ["utc", "utc", "utc", "tai", "tt"])
    method = gen.pick(rng, ["call", "call", "f0", "f1", "f2", "phasepol"])
    if kind.startswith("array"):
        ks = ["inside", "centre", "edge_in", "inside"] + (["outside"] if kind == "array_with_out" else [])
        ts = [pick_time(rng, model, k, "utc") for k in ks]
        t = Time([x.jd1 for x in ts], [x.jd2 for x in ts], format="jd", scale="utc", precision=9)
        if scale != "utc":
            t = getattr(t, scale)
        if method == "phasepol":
            method = "call"
    else:
        t = pick_time(rng, model, kind, scale)
    desc.update(time_kind=kind, scale=scale, method=method)
    ctx.describe_case(desc)
    ctx.sample(desc)
    try:
        if method == "call":
            pred(t)
        elif method == "phasepol":
            pred.phasepol(t)
        else:
            pred.f0(t, n=int(method[1]))
    except Exception:
        pass          # judged by the monitor
    # sequence effects: evaluate, phasepol at an off-centre time, evaluate again (the table must not be altered)
    if rng.random() < 0.5:
        t2 = pick_time(rng, model, "inside", "utc")
        try:
            pred.phasepol(t2)
            pred(t2)
            pred(pick_time(rng, model, "inside", "utc"))
            pred.f0(t2)
        except Exception:
            pass
    try:
        pred.intervals
    except Exception:
        pass
    if parent is not None:
        # a subset must not share state with its parent: probe the hole left by the dropped entries, then the parent again
        dropped = [e for e in parent_model.entries if e not in model.entries]
        try:
            if dropped:
                pred(dropped[int(rng.integers(len(dropped)))].tmid)          # judged: must raise unless another kept entry covers it
            parent.intervals
            parent(pick_time(rng, parent_model, "inside", "utc"))
            parent(dropped[0].tmid) if dropped else None
        except Exception:
            pass
        REGISTRY.pop(id(parent), None)
    ctx.bucket(desc["nent"], desc["ncoeff"] % 3, desc["spacing"], kind, method, via, desc.get("subset_order", "-"))
    REGISTRY.pop(id(pred), None)


def wl_time_at(ctx, idx, rng):
    # single-entry files: synthetic entries are not continuations of each other, so a multi-entry synthetic predictor is
    # discontinuous and its inversion ill-posed; continuous multi-entry inversion is exercised on tests/data/timing.dat
    text, entries, desc = make_polyco(rng, nent=1, spacing="span", monotonic=True)
    model = Model(entries)
    pred = build(ctx, rng, text, entries, "stringio")
    if pred is None:
        return
    REGISTRY[id(pred)] = model
    mon = ctx.predictor_monitor
    e = model.entries[int(rng.integers(len(model.entries)))]
    t = e.tmid + float(rng.uniform(-e.span / 2.2, e.span / 2.2)) * u.min
    kind = idx % 4
    desc.update(kind=kind)
    ctx.describe_case(desc)
    with probes.quiet():
        ph = pred(t)
    if kind == 3:
        with probes.quiet():
            lo = pred(model.entries[0].tmid - (model.entries[0].span / 2.0) * u.min)
        bad = lo - 1e6 * u.cycle
        mon.expect_time = (t, e.f0, False)
        try:
            pred.time_at(bad)
        except Exception:
            pass
    else:
        arg = ph
        # a guess must itself lie inside the predictor's range
        guess = None if kind != 1 else e.tmid + float(rng.uniform(-e.span / 2.5, e.span / 2.5)) * u.min
        mon.expect_time = (t, e.f0, True)
        try:
            pred.time_at(arg) if guess is None else pred.time_at(arg, guess=guess)
        except Exception:
            pass
    mon.expect_time = None
    ctx.bucket("time_at", kind, len(model.entries))
    REGISTRY.pop(id(pred), None)


def wl_datafile(ctx, idx, rng):
    """The repository's own polyco file, parsed by the oracle from the same text."""
    from ..core import REPO
    path = os.path.join(REPO, "tests", "data", "timing.dat")
    lines = open(path).read().splitlines()
    entries = []
    i = 0
    while i < len(lines):
        if not lines[i].strip():
            i += 1
            continue
        l1, l2 = lines[i].split(), lines[i + 1].split()
        nco = int(l2[4])
        nl = -(-nco // 3)
        cs = " ".join(lines[i + 2:i + 2 + nl]).split()
        entries.append(Entry(l1[3], l2[0], l2[1], int(l2[3]), cs))
        i += 2 + nl
    model = Model(entries)
    pred, exc = ctx.call("from_polyco", pb.PhasePredictor.from_polyco, path)
    if exc is not None:
        return
    REGISTRY[id(pred)] = model
    for _ in range(6):
        t = pick_time(rng, model, gen.pick(rng, ["inside", "edge_in", "centre", "outside"]), gen.pick(rng, ["utc", "tai"]))
        try:
            pred(t)
            pred.f0(t)
        except Exception:
            pass
    try:
        pred.intervals
    except Exception:
        pass
    mon = ctx.predictor_monitor
    for _ in range(3):
        e = model.entries[int(rng.integers(len(model.entries)))]
        t = e.tmid + float(rng.uniform(-e.span / 2.0, e.span / 2.0)) * u.min
        with probes.quiet():
            ph = pred(t)
        mon.expect_time = (t, e.f0, True)
        try:
            pred.time_at(ph)
        except Exception:
            pass
        # the same phase with a caller-supplied starting point anywhere in the file's range (usually another entry than the root's)
        g = model.entries[int(rng.integers(len(model.entries)))]
        guess = g.tmid + float(rng.uniform(-g.span / 2.2, g.span / 2.2)) * u.min
        ctx.count("time_at_guess_other_entry" if g is not e else "time_at_guess_same_entry")
        try:
            pred.time_at(ph, guess=guess)
        except Exception:
            pass
        mon.expect_time = None
    # phases reached a few ms inside the ends of a validity interval are still in range (default starting point)
    with probes.quiet():
        ivs = list(pred.intervals)
    for a_, b_ in ivs[:2]:
        d_ = float(gen.pick(rng, [1e-3, 5e-3, 2e-2, 0.1, 1.0]))
        for t in (a_ + d_ * u.s, b_ - d_ * u.s):
            with probes.quiet():
                ph = pred(t)
                f0v = pred.f0(t).to_value(u.cycle / u.s)
            mon.expect_time = (t, f0v, True)
            ctx.count("time_at_near_interval_edge")
            try:
                pred.time_at(ph)
            except Exception:
                pass
            mon.expect_time = None
    ctx.bucket("datafile", idx % 4)
    ctx.describe_case({"file": "tests/data/timing.dat", "entries": len(entries)})
    REGISTRY.pop(id(pred), None)


def workloads(ctx):
    q = ctx.tier == "quick"
    return [("predict", 2880 if q else 38400, wl_predict), ("time_at", 360 if q else 2400, wl_time_at), ("datafile", 16 if q else 80, wl_datafile)]


def setup(ctx):
    ctx.predictor_monitor = PredictorMonitor(ctx).install()
    return probes.detach_all


def finalize(ctx):
    for e in probes.monitor_errors():
        ctx.inconclusive_because("monitor error: " + e[:600])
    ctx.require("oracle[predictor_call]", 300, "phase prediction oracle")
    ctx.require("oracle[predictor_f0]", 150, "frequency derivative oracle")
    ctx.require("oracle[predictor_phasepol]", 40, "phasepol oracle")
    ctx.require("oracle[time_at]", 60, "time_at oracle")
    ctx.require("oracle[intervals]", 300, "intervals oracle")
    ctx.require("oracle[refusal]", 100, "out-of-span refusal oracle")
