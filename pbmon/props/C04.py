"""C04 - freq_shift moves the spectrum by the given amount, zeroing what leaves the band."""

import math
from fractions import Fraction as F

import numpy as np
import astropy.units as u
import dask.array as da
import pulsarbat as pb

from .. import exact, gen, probes, monitors, dsp, refdft

from ..replay import wl_R

RULE = ("baseband signals N in {1,2,7,64,1023,1024,4096,(thorough: 16384,65536)} x shapes (N,1),(N,4),(N,4,2),(N,2,3,2) x c8/c16 x "
        "shift {scalar,(1,),per-channel,length-1 axes,full} x value {whole bin, fractional, +-(N-1), >=N, 0, mixed signs, huge (thousands "
        "of bins)} x NumPy/Dask; white noise plus band-edge tones so wrap-around is visible in every element. Every freq_shift call is "
        "compared per element with an independent complex128/longdouble reference (spectrum moved, wrapped bins zeroed) in l2 norm, "
        "and the DFT of the output is checked directly in the zeroed region. Non-trivial = value oracle ran with a non-zero shift; "
        "distinct = (N, dtype, sample shape, shift shape kind, value kind, backend).")
ASSUMPTIONS = [
    "l2 tolerance 1e-9*||x_e||_2 (complex128) / 2^-19*(1+log2 N/8)*||x_e||_2 (complex64)",
    "the single boundary bin is unconstrained when the requested shift is within 1e-9 of a whole bin",
]
BUDGET = {"quick": 110, "thorough": 1200}


def value_tol(dtype, N):
    if np.dtype(dtype) == np.dtype(np.complex64):
        return 2.0 ** -19 * (1 + math.log2(N + 1) / 8)
    return 1e-9


class FreqShiftMonitor:
    def __init__(self, ctx, oracle="freq_shift"):
        self.ctx, self.o = ctx, oracle

    def install(self):
        probes.attach(pb.transforms.transforms, "freq_shift", self, "freq_shift")
        return self

    def pre(self, point, args, kwargs):
        z = args[0]
        if not isinstance(z, pb.BasebandSignal):
            return None
        return monitors.meta_of(z)

    def post(self, point, args, kwargs, m, out, exc):
        ctx, o = self.ctx, self.o
        if m is None or exc is not None:
            return
        z = args[0]
        shift = args[1] if len(args) > 1 else kwargs.get("shift")
        ctx.count("freq_shift_events")
        N = m["len"]
        sshape = m["shape"][1:]
        try:
            hzv = np.asarray(shift.to_value(u.Hz), dtype=np.float64)
            df_b = np.array(dsp.broadcast_left(hzv, sshape), dtype=np.float64)
        except Exception:
            return
        feats = {"cls": m["cls"].__name__, "dask": m["dask"], "shift_ndim": int(np.ndim(hzv)), "scalar_shift": np.ndim(hzv) == 0,
                 "shift_broadcast": bool(np.shape(hzv) != tuple(sshape))}
        if type(out) is not m["cls"]:
            ctx.violation(o, f"freq_shift returned {type(out).__name__} for {m['cls'].__name__}", None, dict(feats, what="class"))
            return
        mo = monitors.meta_of(out)
        for k in ("rate", "fc", "bw", "align", "pol", "meta", "dtype", "shape", "dask"):
            if k in m and m[k] != mo.get(k):
                if k == "bw" and m["bw"] != m["rate"] and mo.get("bw") == mo.get("rate"):
                    # the input had its sample_rate reassigned on its own; every baseband *result* is created with chan_bw = sample_rate
                    ctx.count("input_with_rate_setter_only")
                    continue
                ctx.violation(o, f"freq_shift changed {k}: {m[k]!r} -> {mo.get(k)!r}", None, dict(feats, what="meta_" + k))
        if not monitors.same_time(mo["start"], m["start"], 0):
            ctx.violation(o, "freq_shift changed start_time", None, dict(feats, what="start"))
        if mo["shape"] != m["shape"] or N == 0:
            return
        if N * int(np.prod(sshape)) > 1 << 21:
            ctx.count("skipped_too_large")
            return
        x = gen.np_data(z)
        y = gen.np_data(out)
        if not np.all(np.isfinite(x)):
            # flagged / saturated samples: the only thing that can be judged is the statement's last clause - an element shifted by
            # a full bandwidth or more is *exactly zero* whatever it held (everything left the band)
            ctx.count("skipped_nonfinite")
            a_nf = (df_b * N / float(m["rate"])).reshape(-1)
            full_nf = np.abs(a_nf) >= N
            if np.any(full_nf) and y.shape == x.shape:
                ctx.count("oracle[full_band_zero_nonfinite]")
                cols = y.reshape(N, -1)[:, full_nf]
                if np.any(cols != 0):
                    ctx.violation(o, "an element shifted by a full bandwidth or more is not exactly zero when its input holds NaN/Inf samples "
                                     f"({int(np.isnan(cols).sum())} NaN in the output)", None, dict(feats, what="full_band_nonfinite"))
            return
        sr = float(m["rate"])
        a_b = df_b * N / sr                       # shift in bins, per element
        # exact value to decide ambiguity: a = df*N/sr
        E = int(np.prod(sshape))
        a = a_b.reshape(E)
        amb = (np.abs(a - np.round(a)) < 1e-9 * np.maximum(1, np.abs(a))) & (a != 0)
        ref, zero = dsp.ref_freq_shift(x, a_b)
        ctx.count("oracle[freq_shift_values]")
        x2, y2, r2 = x.reshape(N, E), y.reshape(N, E).astype(np.complex128), ref.reshape(N, E)
        zero2 = zero.reshape(N, E)
        norm = refdft.l2(x2, axis=0)
        tol = value_tol(m["dtype"], N) * norm + 1e-300
        Yo = np.fft.fftshift(refdft.dft(y2, axis=0), axes=0)
        Yr = np.fft.fftshift(refdft.dft(r2, axis=0), axes=0)
        D = Yo - Yr
        # whole-bin ambiguity: the boundary bin may or may not be zeroed
        for e_ in np.nonzero(amb)[0]:
            ar = int(round(a[e_]))
            for kb in ((ar - 1, ar) if ar > 0 else (N + ar - 1, N + ar)):
                if 0 <= kb < N:
                    D[kb, e_] = 0
            ctx.count("ambiguous[boundary_bin]")
        # (1) zeroed region of the output spectrum
        zmag = np.abs(np.where(zero2, Yo, 0))
        for e_ in np.nonzero(amb)[0]:
            ar = int(round(a[e_]))
            for kb in ((ar - 1, ar) if ar > 0 else (N + ar - 1, N + ar)):
                if 0 <= kb < N:
                    zmag[kb, e_] = 0
        zl2 = np.sqrt(np.sum(zmag ** 2, axis=0)) / math.sqrt(N)
        bad = zl2 > tol
        if np.any(bad):
            e_ = int(np.nonzero(bad)[0][0])
            idx_e = tuple(int(i) for i in np.unravel_index(e_, sshape))
            ctx.violation(o, f"element {idx_e} (shift {a[e_]:.6g} bins, N={N}): bins that content wrapped into still hold "
                             f"energy: l2 {zl2[e_]:.3e} > tol {tol[e_]:.3e} (= {zl2[e_] / (norm[e_] + 1e-300):.3e} ||x||_2)",
                          {"shift_hz": hzv.tolist() if hzv.size < 9 else str(hzv.shape), "N": N},
                          dict(feats, what="zeroing", first_element=(e_ == 0)))
        # (2) whole spectrum / signal vs reference
        l2err = np.sqrt(np.sum(np.abs(D) ** 2, axis=0)) / math.sqrt(N)
        bad = l2err > tol
        ctx.stat_max(f"l2err_over_tol[{np.dtype(m['dtype']).name}]", float(np.max(l2err / tol)))
        if np.any(bad & ~(zl2 > tol)):
            e_ = int(np.nonzero(bad & ~(zl2 > tol))[0][0])
            idx_e = tuple(int(i) for i in np.unravel_index(e_, sshape))
            ctx.violation(o, f"element {idx_e} (shift {a[e_]:.6g} bins, N={N}, {m['dtype']}): output differs from the reference "
                             f"(spectrum moved by the shift, wrapped bins zeroed): l2 error {l2err[e_]:.3e} > tol {tol[e_]:.3e} "
                             f"(= {l2err[e_] / (norm[e_] + 1e-300):.3e} ||x||_2)",
                          {"shift_hz": hzv.tolist() if hzv.size < 9 else str(hzv.shape), "N": N}, dict(feats, what="value"))
        # (3) full-bandwidth shifts give exact zeros
        full = np.abs(a) >= N
        if np.any(full):
            cols = y.reshape(N, E)[:, full]
            if np.any(cols != 0):
                ctx.violation(o, "shift of a full bandwidth or more did not give an all-zero element", None, dict(feats, what="full_band"))
        if np.any(a != 0):
            ctx.count("nontrivial[freq_shift]")


NS = [1, 2, 7, 64, 1023, 1024, 4096]
SHAPES = [(1,), (4,), (4, 2), (2, 3, 2)]
VAL_KINDS = ["whole", "frac", "edge", "beyond", "zero", "mixed", "huge", "tiny"]
SHAPE_KINDS = ["scalar", "one", "per_chan", "len1_first", "len1_last", "full"]


def make_shift_bins(rng, N, sshape, vk, sk):
    if sk == "scalar":
        shp = ()
    elif sk == "one":
        shp = (1,)
    elif sk == "per_chan":
        shp = sshape[:1]
    elif sk == "len1_first":
        shp = (1,) + sshape[1:]
    elif sk == "len1_last":
        shp = sshape[:-1] + (1,) if len(sshape) > 1 else sshape
    else:
        shp = sshape
    lim = max(1, N // 2)
    if vk == "whole":
        a = rng.integers(-lim, lim + 1, size=shp).astype(float)
    elif vk == "frac":
        a = rng.uniform(-lim, lim, size=shp)
    elif vk == "edge":
        a = rng.choice([N - 1, -(N - 1), N - 0.5, -(N - 0.5)], size=shp).astype(float)
    elif vk == "beyond":
        a = rng.choice([N, -N, 1.5 * N, -2.0 * N, N + 0.25], size=shp).astype(float)
    elif vk == "zero":
        a = np.zeros(shp)
        if rng.random() < 0.5:
            a = -a              # negative zero (e.g. the negation of an offsets table): still "no shift"
        if np.size(a) > 1:
            a.flat[-1] = 2.0
    elif vk == "mixed":
        a = rng.uniform(-lim, lim, size=shp)
        if np.size(a) > 1:
            a.flat[0], a.flat[-1] = abs(a.flat[0]) + 0.5, -abs(a.flat[-1]) - 0.5
    elif vk == "tiny":
        # a small correction on wide-band data: 1e-10..9e-9 cycles per sample (e.g. 1 Hz at 200 MHz), far below one bin
        a = 10.0 ** rng.uniform(-10, -8.05, size=shp) * N * rng.choice([-1, 1], size=shp)
    else:
        a = rng.uniform(0.5 * N, 0.95 * N, size=shp) * rng.choice([-1, 1], size=shp)
    return a


def wl_shift(ctx, idx, rng):
    big = ctx.tier == "thorough"
    Ns = NS + ([16384, 65536] if big else [])
    N = Ns[idx % len(Ns)]
    sshape = SHAPES[(idx // len(Ns)) % 4]
    vk = VAL_KINDS[(idx // (len(Ns) * 4)) % len(VAL_KINDS)]
    sk = SHAPE_KINDS[int(rng.integers(len(SHAPE_KINDS)))]
    if len(sshape) > 1 and rng.random() < 0.3:
        sshape = [(2, 2), (3, 3), (2, 2, 2)][int(rng.integers(3))]
    if N >= 4096 and len(sshape) > 1:
        sshape = sshape[:1]
    dtype = gen.pick(rng, [np.complex64, np.complex128]) if vk != "tiny" else np.complex128
    if vk == "tiny":
        N = max(N, 1024)
    use_dask = rng.random() < 0.25
    clsname = "DualPolarizationSignal" if (len(sshape) > 1 and sshape[1] == 2 and rng.random() < 0.7) else "BasebandSignal"
    x = gen.rand_data(rng, (N,) + sshape, dtype)
    if N >= 4:
        # band-edge tones: content that wraps for any non-zero shift
        n = np.arange(N).reshape((N,) + (1,) * len(sshape))
        x = x + (4 * np.exp(2j * np.pi * (N // 2 - 1) * n / N) + 4 * np.exp(-2j * np.pi * (N // 2) * n / N)).astype(dtype)
        x = x.astype(dtype)
    if vk == "beyond" and N >= 2 and rng.random() < 0.3:
        x = x.copy()
        x.flat[int(rng.integers(x.size))] = gen.pick(rng, [np.nan, np.inf, complex(np.nan, 1.0), -np.inf])      # flagged / saturated sample
    rate = gen.rand_rate(rng, lo=0, hi=8.5)
    sig, desc = gen.make_signal(rng, clsname, N, data=x, rate=rate, dask=use_dask, mem="readonly" if gen._side_rng(rng).random() < 0.1 else "rand")
    a = make_shift_bins(rng, N, sshape, vk, sk)
    if np.ndim(a) >= 2 and rng.random() < 0.35:
        a = np.asfortranarray(a)            # e.g. a (pol, chan) table passed transposed: same values, column-major memory
    df = (a / N) * sig.sample_rate
    df = df.to(gen.pick(rng, [u.Hz, u.kHz, u.MHz, 1 / u.s, u.mHz]))
    desc.update(N=N, bins=(np.asarray(a).tolist() if np.size(a) < 9 else str(np.shape(a))), value_kind=vk, shape_kind=sk)
    ctx.describe_case(desc)
    ctx.sample(desc)
    if clsname == "BasebandSignal" and not use_dask and gen._side_rng(rng).random() < 0.1:
        # the public sample_rate setter alone (chan_bw keeps the old value): the shift in Hz is relative to the *sample rate*
        with probes.quiet():
            sig.sample_rate = sig.sample_rate * float(gen.pick(rng, [2.0, 0.5, 1.25]))
        ctx.count("history[sample_rate_setter_only]")
    before = ctx.counters["freq_shift_events"]
    small_chunks = use_dask and N >= 1024 and rng.random() < 0.5
    if small_chunks:
        # a Dask configuration with a small default chunk size: the signal itself is one chunk along time, so the call is valid
        import dask
        with dask.config.set({"array.chunk-size": "4KiB"}):
            out, exc = ctx.call("freq_shift", pb.freq_shift, sig, df, where="freq_shift under array.chunk-size=4KiB",
                                features={"dask_config": "small_chunk_size"})
        ctx.count("dask_small_chunk_config")
    else:
        out, exc = ctx.call("freq_shift", pb.freq_shift, sig, df)
    if exc is None and ctx.counters["freq_shift_events"] == before:
        ctx.inconclusive_because("freq_shift probe did not fire")
    if exc is None:
        ctx.bucket(N, np.dtype(dtype).name, sshape, sk, vk, "dask" if use_dask else "np")
    if exc is None and use_dask:
        a2 = make_shift_bins(rng, N, sshape, vk if vk != "tiny" else "frac", sk)
        o3, e3 = ctx.call("freq_shift", pb.freq_shift, sig, (a2 / N) * sig.sample_rate)
        sig_b, _ = gen.make_signal(rng, clsname, N, data=gen.rand_data(rng, (N,) + sshape, dtype), rate=rate, dask=True)
        o4, e4 = ctx.call("freq_shift", pb.freq_shift, sig_b, df)
        monitors.joint_compute_check(ctx, "freq_shift", [r_ for r_, e_ in ((out, exc), (o3, e3), (o4, e4)) if e_ is None and isinstance(r_, pb.Signal)],
                                     {"cls": clsname, "dask": True}, "freq_shift results of equal length")
    if exc is None and len(sshape) >= 2 and rng.random() < 0.5:
        # call history: the same numbers in another orientation right after, on the same signal
        v = np.atleast_1d(np.asarray(df.value, dtype=float)).ravel()
        for shp in {(v.size,), (1, v.size), (v.size, 1)}:
            if len(shp) <= len(sshape) and all(a_ in (1, b_) for a_, b_ in zip(shp, sshape)) and shp != np.shape(a):
                ctx.call("freq_shift", pb.freq_shift, sig, v.reshape(shp) * df.unit)
                ctx.count("history[reoriented_shift]")
    # error contract
    r = rng.random()
    if r < 0.05:
        ctx.call("freq_shift", pb.freq_shift, sig, 3.0 * u.s, expect=ValueError, where="freq_shift(seconds)")
        ctx.call("freq_shift", pb.freq_shift, sig, 3.0, expect=ValueError, where="freq_shift(float)")
        ctx.call("freq_shift", pb.freq_shift, sig, np.ones((1,) * (len(sshape) + 1)) * u.Hz, expect=ValueError, where="freq_shift(too many dims)")
    elif r < 0.1:
        other, _ = gen.make_signal(rng, gen.pick(rng, ["Signal", "RadioSignal", "IntensitySignal"]), 8)
        ctx.call("freq_shift", pb.freq_shift, other, 1 * u.Hz, expect=TypeError, where="freq_shift(non-baseband)")


def install_universal(ctx):
    FreqShiftMonitor(ctx).install()
    return probes.detach_all


def workloads(ctx):
    q = ctx.tier == "quick"
    return [("R", 1, wl_R), ("shift", 3920 if q else 30240, wl_shift)]


def setup(ctx):
    FreqShiftMonitor(ctx).install()
    return probes.detach_all


def finalize(ctx):
    for e in probes.monitor_errors():
        ctx.inconclusive_because("monitor error: " + e[:600])
    ctx.require("oracle[freq_shift_values]", 300, "freq_shift value/zeroing oracle")
