"""C02 - channel frequency labels follow the band model and survive frequency slicing."""

from fractions import Fraction as F

import numpy as np
import astropy.units as u
import pulsarbat as pb

from .. import exact, gen, probes, monitors

from ..replay import wl_R

RULE = ("radio-signal classes x nchan {1..9, 16, 64, 2048} x alignment x center_freq 1e6..1e11 Hz x chan_bw 1 Hz..1 GHz in mixed "
        "units; every completed construction is compared with the exact band model (labels, spacing, min/max, bandwidth); every "
        "frequency / combined time+frequency / trailing-axis / Stokes selection (nesting depth <= 5) is compared with the selected "
        "labels of its input. Non-trivial = the label oracle ran with labels resolvable in float64 (rounding bound <= chan_bw/1000) "
        "on a selection of >= 1 channel; distinct = (class, nchan, alignment, selection kind, bw/fc decade).")
ASSUMPTIONS = [
    "label tolerance 16*2^-53*(|center_freq| + nchan*chan_bw); configurations where this exceeds chan_bw/1000 are counted as "
    "unresolvable, not as evidence",
    "labels are compared through the public channel_freqs / min_freq / max_freq / bandwidth attributes",
]
BUDGET = {"quick": 100, "thorough": 900}

NCH = [1, 2, 3, 4, 5, 6, 7, 8, 9, 16, 64]


def on_built_factory(ctx):
    def on_built(sig):
        if not isinstance(sig, pb.RadioSignal):
            return
        ctx.count("constructions_seen")
        with probes.quiet():
            probs = monitors.band_model_problems(sig)
        if probs is None:
            ctx.count("unresolvable[band_model]")
            return
        ctx.count("oracle[band_model]")
        for code, text in probs:
            ctx.violation("band_model", text, {"cls": type(sig).__name__},
                          {"what": code, "cls": type(sig).__name__, "align": sig.freq_align, "parity": sig.shape[1] % 2})
    return on_built


def rand_band(rng, clsname, nchan, rate=None):
    """(rate, fc, chan_bw) with bw/fc >= ~1e-8 so labels are resolvable."""
    if clsname in gen.BASEBAND:
        rate = gen.rand_rate(rng, lo=0.0, hi=9.0)
        bw = rate
    else:
        rate = gen.rand_rate(rng, lo=-2.0, hi=8.0)
        bw = gen.rand_freq(rng, 1.0, 1e9)
    bwhz = float(bw.to_value(u.Hz))
    lo = max(bwhz * nchan, 1e6)
    hi = min(max(lo * 10, 1e11), bwhz * 1e8)
    fc = gen.rand_freq(rng, lo, max(hi, lo * 1.01))
    r = gen._side_rng(rng).random()
    if r < 0.12:
        # bands at, across and below 0 Hz (a DFT band centred on DC, the image band): labels follow the same formula
        k = int(gen._side_rng(rng).integers(4))
        fc = [0 * fc.unit, -fc, bw * float(gen._side_rng(rng).uniform(-nchan / 2, nchan / 2)), (bw * (nchan // 2 + 3)).to(fc.unit)][k]
    if 0.12 <= r < 0.2:
        # header fields held in single precision: the Quantity denotes exactly that float32 value
        fc = np.float32(fc.value) * fc.unit
        if clsname not in gen.BASEBAND:
            bw = np.float32(bw.value) * bw.unit
    return rate, fc, bw


def wl_construct(ctx, idx, rng):
    clsname = gen.RADIO[idx % 5]
    nchan = NCH[(idx // 5) % len(NCH)] if rng.random() < 0.97 else 2048
    align = ["bottom", "center", "top"][(idx // 55) % 3]
    rate, fc, bw = rand_band(rng, clsname, nchan)
    n = int(rng.integers(0, 6))
    sig, desc = gen.make_signal(rng, clsname, n, nchan=nchan, rate=rate, fc=fc, chan_bw=bw, align=align,
                                extra=() if nchan > 64 else None)
    ctx.describe_case(desc)
    ctx.sample(desc)
    want_align = "center" if nchan % 2 else align
    if sig.freq_align != want_align:
        ctx.violation("band_model", f"freq_align={sig.freq_align!r} for nchan={nchan}, given {align!r}", None, {"what": "align_norm"})
    # setters are public: move the band and re-check the model
    k = int(rng.integers(3))
    with probes.quiet():
        if k == 0:
            sig.center_freq = fc * 1.25
        elif k == 1:
            sig.freq_align = gen.pick(rng, ["bottom", "center", "top"])
        elif clsname not in gen.BASEBAND:
            sig.chan_bw = bw / 2
        probs = monitors.band_model_problems(sig)
    if rng.random() < 0.3:
        # a refused assignment leaves the band where it was
        with probes.quiet():
            m0 = monitors.meta_of(sig)
        attr, bad = gen.pick(rng, [("chan_bw", -2 * u.MHz), ("chan_bw", 0 * u.Hz), ("chan_bw", [1, 2] * u.MHz), ("chan_bw", 3 * u.s),
                                   ("center_freq", [1, 2] * u.GHz), ("center_freq", 5 * u.m), ("center_freq", 1.4), ("freq_align", "middle")])
        ctx.count("history[refused_band_assignment]")
        try:
            setattr(sig, attr, bad)
        except ValueError:
            pass
        except Exception as e:
            ctx.violation("band_model", f"{attr} = {bad!r} raised {type(e).__name__}, expected ValueError", None, {"what": "setter_exc_type"})
        else:
            ctx.violation("band_model", f"{attr} = {bad!r} was accepted", None, {"what": "setter_accepted", "attr": attr})
        with probes.quiet():
            try:
                m1 = monitors.meta_of(sig)
            except Exception as e:
                m1 = {"error": repr(e)}
        for k_ in ("fc", "bw", "align", "nchan", "fmin", "fmax"):
            if m0.get(k_) != m1.get(k_):
                ctx.violation("band_model", f"a refused assignment {attr} = {bad!r} changed {k_}: {m0.get(k_)!r} -> {m1.get(k_)!r}", None,
                              {"what": "refused_assignment_changed_band", "attr": attr})
                break
        with probes.quiet():
            probs = monitors.band_model_problems(sig) if "error" not in m1 else None
    if probs is not None:
        ctx.count("oracle[band_model_after_setter]")
        for code, text in probs:
            ctx.violation("band_model", "after setter: " + text, None, {"what": code, "after_setter": True})
        fchz_ = float(sig.center_freq.to_value(u.Hz))
        bwr = float(sig.chan_bw.to_value(u.Hz)) / abs(fchz_) if fchz_ else 0.0
        ctx.bucket("construct", clsname, nchan, sig.freq_align, int(np.floor(np.log10(bwr))) if bwr > 0 else "dc", "neg" if fchz_ < 0 else "pos")


def rand_frange(rng, nchan):
    a = int(rng.integers(0, nchan))
    b = int(rng.integers(a + 1, nchan + 1))
    forms = [slice(a, b), slice(a - nchan, b) if a > 0 else slice(None, b), slice(a, b - nchan) if b < nchan else slice(a, None),
             slice(a, b + int(rng.integers(0, 100))) if b == nchan else slice(a, b),
             slice(a, b, 1), slice(a, b, np.int64(1)), slice(*slice(a, b).indices(nchan)), slice(np.int64(a), np.int32(b))]
    return a, b, gen.pick(rng, forms)


def wl_freqslice(ctx, idx, rng):
    clsname = gen.RADIO[idx % 5]
    nchan = NCH[1 + (idx // 5) % (len(NCH) - 1)]
    align = ["bottom", "center", "top"][(idx // 50) % 3]
    rate, fc, bw = rand_band(rng, clsname, nchan)
    n = int(gen.pick(rng, [3, 5, 8, 16, 33]))
    if n == nchan:
        n += 1
    sig, desc = gen.make_signal(rng, clsname, n, nchan=nchan, rate=rate, fc=fc, chan_bw=bw, align=align, data_kind="coded")
    root = sig
    with probes.quiet():
        root_m = monitors.meta_of(root)
        tol = monitors.label_tol(root_m["fc"], root_m["bw"], nchan)
        root_labels = monitors.model_labels(root_m["fc"], root_m["bw"], root_m["align"], nchan)
    lo, hi = 0, nchan
    depth = int(rng.integers(1, 6))
    kinds = []
    stepped = False
    cur = sig
    for d in range(depth):
        nc = cur.shape[1]
        a, b, fs = rand_frange(rng, nc)
        L = len(cur)
        tk = int(rng.integers(4))
        if tk == 0:
            tsl = slice(None)
        elif tk == 1:
            t0 = int(rng.integers(0, L + 1))
            tsl = slice(t0, int(rng.integers(t0, L + 1)))
        elif tk == 2:
            tsl = slice(-int(rng.integers(1, L + 2)), None)
        else:
            tsl = slice(int(rng.integers(0, max(1, L))), None, int(rng.integers(2, 4)))
        index = (tsl, fs)
        kind = f"t{tk}"
        if cur.ndim > 2 and clsname in ("RadioSignal", "IntensitySignal", "BasebandSignal") and rng.random() < 0.3:
            index = index + (gen.pick(rng, [int(rng.integers(0, cur.shape[2])), slice(0, 1)]),)
            kind += "+trail"
        elif cur.ndim > 2 and rng.random() < 0.2:
            index = index + (slice(None),)
        new, exc = ctx.call("getitem_freq", lambda: cur[index], where=f"z[{index}]")
        if exc is not None:
            return
        if tk == 3:
            stepped = True
        kinds.append(kind)
        lo, hi = lo + a, lo + b
        # data: selected channels are the original channels (coded data)
        with probes.quiet():
            want = np.asarray(cur.data)[index]
            if want.shape != new.shape or not np.array_equal(np.asarray(new.data), want):
                ctx.violation("getitem_data", f"z[{index}] data differ from data[index]", None, {"what": "data"})
        cur = new
        if len(cur) < 2:
            break
    desc.update(depth=depth, kinds=kinds, chan_range=[lo, hi])
    ctx.describe_case(desc)
    ctx.sample(desc)
    if rng.random() < 0.25:
        # selections outside what the band model can describe: refused (any exception), or - judged by the monitor - labelled right
        nc = cur.shape[1]
        bad = gen.pick(rng, [slice(None, None, 2), slice(None, None, -1), slice(nc, nc), slice(1, 1), slice(nc - 1, 0, -1),
                             int(rng.integers(0, nc)), [0], np.arange(nc) % 2 == 0, Ellipsis])
        ctx.count("unsupported_freq_selection")
        try:
            r_ = cur[:, bad]
        except Exception:
            ctx.count("unsupported_freq_selection_refused")
        else:
            if isinstance(r_, pb.RadioSignal) and not isinstance(bad, slice):
                # integer / mask / list selections change the meaning of axis 1: a RadioSignal result is mislabelled by construction
                with probes.quiet():
                    ok_ = bad is Ellipsis and r_.shape == cur.shape
                if not ok_:
                    ctx.violation("getitem_freq", f"z[:, {bad!r}] returned a {type(r_).__name__} of shape {r_.shape} instead of refusing a "
                                                  "non-slice frequency index", None, {"what": "non_slice_accepted"})
    # end-to-end: leaf labels == root labels[lo:hi]  (skipped for the stepped-baseband known mechanism, judged per event)
    if tol <= root_m["bw"] / 1000 and not (stepped and clsname in gen.BASEBAND):
        ctx.count("oracle[nested_labels]")
        with probes.quiet():
            vals = cur.channel_freqs.to_value(u.Hz)
        want = root_labels[lo:hi]
        if len(vals) != len(want) or any(abs(F(float(v)) - w) > (len(kinds) + 1) * tol for v, w in zip(vals, want)):
            ctx.violation("nested_labels", f"after {len(kinds)} nested selections the leaf labels {vals[:4]} != root labels[{lo}:{hi}] "
                                           f"{[float(w) for w in want[:4]]}", {"kinds": kinds}, {"what": "nested"})
        ctx.bucket("fslice", clsname, nchan, align, ",".join(kinds[:3]))


def wl_stokes(ctx, idx, rng):
    nchan = NCH[(idx // 3) % len(NCH)]
    align = ["bottom", "center", "top"][idx % 3]
    rate, fc, bw = rand_band(rng, "FullStokesSignal", nchan)
    n = int(rng.integers(1, 9))
    via = int(rng.integers(3))
    if via == 0:
        sig, desc = gen.make_signal(rng, "FullStokesSignal", n, nchan=nchan, rate=rate, fc=fc, chan_bw=bw, align=align)
    else:
        rate, fc, bw = rand_band(rng, "DualPolarizationSignal", nchan)
        dp, desc = gen.make_signal(rng, "DualPolarizationSignal", n, nchan=nchan, rate=rate, fc=fc, align=align)
        if via == 2 and nchan > 1:
            a, b, fs = rand_frange(rng, nchan)
            dp, exc = ctx.call("getitem_freq", lambda: dp[:, fs])
            if exc is not None:
                return
        sig, exc = ctx.call("stokes_select", dp.to_stokes, where="to_stokes")
        if exc is not None:
            return
        # to_stokes keeps the frequency labels (checked through the band model of both)
        with probes.quiet():
            ma, mb = monitors.meta_of(dp), monitors.meta_of(sig)
            tol = monitors.label_tol(ma["fc"], ma["bw"], ma["nchan"])
            la = monitors.model_labels(ma["fc"], ma["bw"], ma["align"], ma["nchan"])
            lb = monitors.model_labels(mb["fc"], mb["bw"], mb["align"], mb["nchan"])
        if tol <= ma["bw"] / 1000 and (len(la) != len(lb) or any(abs(x - y) > tol for x, y in zip(la, lb))):
            ctx.violation("stokes_select", "to_stokes changed the channel labels", None, {"what": "to_stokes_labels"})
    desc.update(via=via)
    ctx.describe_case(desc)
    key = "IQUV"[int(rng.integers(4))]
    form = int(rng.integers(3))
    if form == 0:
        out, exc = ctx.call("stokes_select", lambda: sig[key])
    elif form == 1:
        out, exc = ctx.call("stokes_select", lambda: getattr(sig, "stokes" + key))
    else:
        # slice + component
        out, exc = ctx.call("stokes_select", lambda: sig[:, :][key])
    if exc is None:
        ctx.bucket("stokes", nchan, align, via, form, key)
    bad, exc = ctx.call("stokes_select", lambda: sig["X"], expect=KeyError, where="sig['X']")


def install_universal(ctx):
    monitors.ConstructionMonitor(on_built=on_built_factory(ctx)).install()
    monitors.GetitemMonitor(ctx, check_time=False, check_freq=True).install()
    return probes.detach_all


def workloads(ctx):
    q = ctx.tier == "quick"
    return [("R", 1, wl_R), 
        ("construct", 1650 if q else 66000, wl_construct),
        ("freqslice", 1500 if q else 60000, wl_freqslice),
        ("stokes", 330 if q else 13200, wl_stokes),
    ]


def setup(ctx):
    monitors.ConstructionMonitor(on_built=on_built_factory(ctx)).install()
    monitors.GetitemMonitor(ctx, check_time=False, check_freq=True).install()
    return probes.detach_all


def finalize(ctx):
    for e in probes.monitor_errors():
        ctx.inconclusive_because("monitor error: " + e[:600])
    ctx.require("oracle[band_model]", 500, "band-model oracle on constructions")
    ctx.require("oracle[getitem_freq]", 300, "frequency-selection label oracle")
    ctx.require("oracle[stokes_select]", 50, "Stokes selection oracle")
