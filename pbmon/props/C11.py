"""C11 - readers are position-faithful, stateless and agree with the underlying file."""

import gc
import hashlib
import os
import sys
import threading
import time
from concurrent.futures import ThreadPoolExecutor
from fractions import Fraction as F

import numpy as np
import astropy.units as u
from astropy.time import Time
import baseband
from baseband import vdif, dada, guppi
import dask
import dask.array as da
import pulsarbat as pb

from .. import exact, gen, probes, monitors, inject, snapshot
from ..core import REPO
from .C19 import reference as r2c_reference

RULE = ("files: the 4 sample files of tests/data plus files written by the check through baseband (VDIF EDV1 real and complex, multi-file "
        "DADA complex, DADA Stokes USB and LSB, multi-file GUPPI USB/LSB, LIN/CIRC); reader variants (squeeze, lower_sideband False/"
        "True/mask, signal classes, intensity). Reference model = baseband.open(...).read() of the whole stream transformed by the "
        "specification (independent real->complex conversion, conj for LSB, axis order, channel flip, dtype). Every read is compared "
        "with the model (bitwise; Hilbert path in l2 norm) incl. length, start time (exact rational), rate and header-derived "
        "metadata; (offset,n) strata: 0, 1, frame size +-1, file boundary +-1, whole file, len, beyond. History checker: every "
        "(reader, offset, n, kind) key must map to one digest over sequential random histories, 2-32 threads hammering few keys with "
        "yield injection, and Dask threaded/synchronous computes (also two readers combined in one graph); reader attributes, open "
        "file descriptors and file bytes unchanged; audit hook sees every open of a data file (read-only); failpoints inside read. "
        "Non-trivial = a value comparison of n >= 1 samples; distinct = (fixture, variant, offset class, n class, path kind).")
ASSUMPTIONS = [
    "the decoded stream of baseband.open(name, 'rs', ...).read() is what 'the file encodes'",
    "real->complex path: l2 tolerance 2^-19*(1+log2(N)/8)*||x||_2 against the independent longdouble definition of C19",
    "thread schedules are those CPython produces under seeded sleep(0) injection at statement boundaries of pulsarbat code",
]
BUDGET = {"quick": 150, "thorough": 1500}
JOBS = {"quick": 4, "thorough": 12}

_AUDIT = {"on": False, "events": [], "paths": set(), "lock": threading.Lock(), "installed": False}


def _audit(event, args):
    if event == "open" and _AUDIT["on"]:
        try:
            p = args[0]
            if isinstance(p, (str, bytes, os.PathLike)):
                p = os.path.realpath(os.fspath(p))
                if p in _AUDIT["paths"]:
                    with _AUDIT["lock"]:
                        _AUDIT["events"].append((p, args[1], args[2]))
        except Exception:
            pass


def nfds():
    """Open descriptors after a garbage collection (baseband's memmap-based payloads are closed by the collector)."""
    import gc
    gc.collect()
    try:
        return len(os.listdir("/proc/self/fd"))
    except Exception:
        return -1


# ------------------------------------------------------------------------------------------------
# fixtures
# ------------------------------------------------------------------------------------------------
class Fixture:
    """One reader configuration + its reference model."""

    def __init__(self, name, make_reader, files, open_kw, kind, spec):
        self.name, self.make_reader, self.files, self.open_kw, self.kind, self.spec = name, make_reader, files, open_kw, kind, spec
        self.reader = None
        self.stream = None

    def load(self):
        fl = self.files if len(self.files) > 1 else self.files[0]
        with baseband.open(fl, "rs", **self.open_kw) as fh:
            self.stream = fh.read()
            self.fh_rate = fh.sample_rate
            self.fh_start = Time(fh.start_time, format="isot", precision=9)
            self.frame = int(fh.samples_per_frame)
            self.complex_data = bool(fh.complex_data)
        self.reader = self.make_reader()
        sp = self.spec
        self.real_baseband = (not self.complex_data) and not sp.get("intensity", False)
        self.length = self.stream.shape[0] // 2 if self.real_baseband else self.stream.shape[0]
        self.rate = exact.hz(self.fh_rate) / (2 if self.real_baseband else 1)
        self.file_len = None

    def model(self, o, n):
        """Expected data of read(o, n) -> (array, tolerance_factor or None for bitwise)."""
        S, sp = self.stream, self.spec
        tol = None
        if self.real_baseband:
            seg = S[2 * o:2 * o + 2 * n]
            z = r2c_reference(seg, 0) if n > 0 else np.zeros((0,) + seg.shape[1:], dtype=np.complex128)
            tol = 2.0 ** -19 * (1 + np.log2(2 * n + 2) / 8)
        else:
            z = S[o:o + n]
        lsb = sp.get("lsb", False)
        if not sp.get("intensity", False):
            if lsb is True:
                z = z.conj()
            elif lsb is not False:
                z = z.copy()
                m = np.asarray(lsb, dtype=bool)
                z[:, m] = z[:, m].conj()
        if self.kind == "guppi":
            z = z.transpose(0, 2, 1)
        elif self.kind == "stokes":
            if sp.get("flip"):
                z = np.flip(z, axis=-1)
            z = z.transpose(0, 2, 1)
        dt = np.float32 if sp.get("intensity", False) else np.complex64
        return (z if tol is not None else z.astype(dt)), tol, np.dtype(dt)


def build_fixtures(scratch, rng):
    D = os.path.join(REPO, "tests", "data")
    fx = []
    t0 = Time("2021-03-04T05:06:07", precision=9)

    def rdata(shape, cplx):
        x = rng.integers(-40, 40, size=shape).astype(np.float64)
        if cplx:
            x = x + 1j * rng.integers(-40, 40, size=shape)
        return x

    # ---- sample files
    sv = os.path.join(D, "sample.vdif")
    fx.append(Fixture("sample.vdif", lambda: pb.readers.BasebandReader(sv), [sv], {}, "bb", {}))
    fx.append(Fixture("sample.vdif/lsb", lambda: pb.readers.BasebandReader(sv, lower_sideband=True), [sv], {}, "bb", {"lsb": True}))
    mask = (np.arange(8) % 3).astype(bool)
    def mask_reader():
        # the caller goes on using (and overwriting) the array it passed: the reader must keep the flags it was created with
        arg = mask.copy()
        r = pb.readers.BasebandReader(sv, lower_sideband=arg)
        arg[:] = ~arg
        return r
    fx.append(Fixture("sample.vdif/mask", mask_reader, [sv], {}, "bb", {"lsb": mask}))
    fx.append(Fixture("sample.vdif/nosqueeze", lambda: pb.readers.BasebandReader(sv, squeeze=False), [sv], {"squeeze": False}, "bb", {}))
    fx.append(Fixture("sample.vdif/intensity",
                      lambda: pb.readers.BasebandReader(sv, signal_type=pb.IntensitySignal,
                                                        signal_kwargs=dict(center_freq=1.4 * u.GHz, chan_bw=16 * u.MHz)),
                      [sv], {}, "bb", {"intensity": True, "cls": pb.IntensitySignal}))
    sd = os.path.join(D, "sample.dada")
    fx.append(Fixture("sample.dada", lambda: pb.readers.BasebandReader(sd), [sd], {}, "bb", {}))
    fx.append(Fixture("sample.dada/baseband",
                      lambda: pb.readers.BasebandReader(sd, squeeze=False, signal_type=pb.BasebandSignal, lower_sideband=True,
                                                        signal_kwargs=dict(center_freq=320 * u.MHz)),
                      [sd], {"squeeze": False}, "bb", {"lsb": True, "cls": pb.BasebandSignal}))
    ss = os.path.join(D, "stokes_ef.dada")
    fx.append(Fixture("stokes_ef.dada", lambda: pb.readers.DADAStokesReader(ss), [ss], {"format": "dada", "squeeze": False}, "stokes",
                      {"intensity": True, "flip": True, "cls": pb.FullStokesSignal, "fc": 7000e6, "bw": 2000e6 / 2048, "align": "top"}))
    gf = [os.path.join(D, f"fake.{i}.raw") for i in range(4)]
    fx.append(Fixture("fake.raw", lambda: pb.readers.GUPPIRawReader(gf), gf, {"format": "guppi", "squeeze": False}, "guppi",
                      {"lsb": False, "cls": pb.DualPolarizationSignal, "fc": 344.1875e6, "pol": "linear", "align": "center"}))

    # ---- written files
    def w_vdif(name, cplx, nthread=2, nframes=6, spf=40):
        path = os.path.join(scratch, name)
        data = rdata((nframes * spf, nthread), cplx)
        with vdif.open(path, "ws", sample_rate=1 * u.MHz, samples_per_frame=spf, nthread=nthread, nchan=1, complex_data=cplx, bps=8,
                       edv=1, station="ab", time=t0) as fw:
            fw.write(data)
        return path

    vr = w_vdif("real.vdif", False)
    fx.append(Fixture("w/real.vdif", lambda: pb.readers.BasebandReader(vr), [vr], {}, "bb", {}))
    fx.append(Fixture("w/real.vdif/lsb", lambda: pb.readers.BasebandReader(vr, lower_sideband=[True, False]), [vr], {}, "bb",
                      {"lsb": np.array([True, False])}))
    vc = w_vdif("cplx.vdif", True)
    fx.append(Fixture("w/cplx.vdif", lambda: pb.readers.BasebandReader(vc, lower_sideband=True), [vc], {}, "bb", {"lsb": True}))

    def w_dada(tmpl, nfiles, spf, npol, nchan, cplx, bw, sr):
        names = [os.path.join(scratch, tmpl.format(i + 9)) for i in range(nfiles)]
        data = rdata((nfiles * spf, npol, nchan), cplx)
        hdr = dada.DADAHeader.fromvalues(time=t0, offset=0 * u.s, sample_rate=sr, samples_per_frame=spf, npol=npol, nchan=nchan,
                                         complex_data=cplx, bps=8, bandwidth=abs(bw) * u.MHz)
        hdr["FREQ"] = 1400.0
        hdr["BW"] = bw
        with dada.open(names, "ws", header0=hdr, squeeze=False) as fw:
            fw.write(data)
        return names

    dc = w_dada("c.{}.dada", 3, 32, 2, 1, True, 16.0, 16 * u.MHz)
    fx.append(Fixture("w/multi.dada", lambda: pb.readers.BasebandReader(dc, squeeze=False, format="dada"), dc,
                      {"format": "dada", "squeeze": False}, "bb", {}))
    for tag, bw in (("lsb", -8.0), ("usb", 8.0)):
        ds = w_dada("st" + tag + ".{}.dada", 2, 16, 4, 8, False, bw, 1 * u.kHz)
        fx.append(Fixture(f"w/stokes_{tag}.dada", (lambda n_: (lambda: pb.readers.DADAStokesReader(n_)))(ds), ds,
                          {"format": "dada", "squeeze": False}, "stokes",
                          {"intensity": True, "flip": bw < 0, "cls": pb.FullStokesSignal, "fc": 1400e6, "bw": 1e6, "align": "top" if bw < 0 else "bottom"}))

    def w_guppi(tmpl, nfiles, spf, nchan, bw, poln):
        # file numbers 9, 10, 11: time order differs from lexicographic order
        names = [os.path.join(scratch, tmpl.format(i + 9)) for i in range(nfiles)]
        data = rdata((nfiles * spf, 2, nchan), True).astype(np.complex64)
        hdr = guppi.GUPPIHeader.fromvalues(time=t0, offset=0 * u.s, sample_rate=abs(bw) / nchan * u.MHz, samples_per_frame=spf, npol=2,
                                           nchan=nchan, bps=8, complex_data=True, overlap=0, sideband=(bw > 0), pktsize=256)
        hdr["OBSFREQ"] = 344.1875
        hdr["FD_POLN"] = poln
        with guppi.open(names, "ws", header0=hdr, squeeze=False, frames_per_file=1) as fw:
            fw.write(data)
        return names

    for tag, bw, poln in (("lsb", -12.5, "CIRC"), ("usb", 12.5, "LIN")):
        gn = w_guppi("g" + tag + ".{}.raw", 3, 64, 4, bw, poln)
        fx.append(Fixture(f"w/guppi_{tag}.raw", (lambda n_: (lambda: pb.readers.GUPPIRawReader(n_)))(gn), gn,
                          {"format": "guppi", "squeeze": False}, "guppi",
                          {"lsb": bw < 0, "cls": pb.DualPolarizationSignal, "fc": 344.1875e6, "pol": "circular" if poln == "CIRC" else "linear",
                           "align": "center"}))
    # the generic reader on the same GUPPI set, streams kept as (npol, nchan) with a per-component sideband mask
    mask2d = np.array([[True, False, False, True], [False, False, True, True]])
    fx.append(Fixture("w/guppi_usb.raw/bb_mask2d",
                      (lambda n_: (lambda: pb.readers.BasebandReader(n_, format="guppi", squeeze=False, lower_sideband=mask2d.copy(),
                                                                     signal_type=pb.Signal)))(gn),
                      gn, {"format": "guppi", "squeeze": False}, "bb", {"lsb": mask2d}))
    for f in fx:
        f.load()
        for p in f.files:
            _AUDIT["paths"].add(os.path.realpath(p))
    return fx


def digest(sig):
    d = sig.data
    if isinstance(d, da.Array):
        d = d.compute(scheduler="synchronous")
    a = np.ascontiguousarray(d)
    return hashlib.blake2b(a.tobytes() + str(a.shape).encode() + str(a.dtype).encode(), digest_size=12).hexdigest()


def judge_read(ctx, fx, o, n, sig, path="eager", feats=None):
    """Compare one returned signal with the reference model."""
    oname = "read_model"
    feats = dict(feats or {}, fixture=fx.name, path=path)
    ctx.count("oracle[read_model]")
    want, tol, dt = fx.model(o, n)
    if len(sig) != n:
        ctx.violation(oname, f"{fx.name}: read({o}, {n}) returned {len(sig)} samples", None, dict(feats, what="len"))
        return False
    cls = fx.spec.get("cls", pb.Signal)
    if type(sig) is not cls:
        ctx.violation(oname, f"{fx.name}: read returned {type(sig).__name__}, expected {cls.__name__}", None, dict(feats, what="class"))
    x = sig.data
    if path == "dask" and not isinstance(x, da.Array):
        ctx.violation(oname, f"{fx.name}: dask_read returned {type(x).__name__} data", None, dict(feats, what="container"))
    if isinstance(x, da.Array):
        x = x.compute(scheduler="synchronous")
    x = np.asarray(x)
    if x.dtype != dt:
        ctx.violation(oname, f"{fx.name}: dtype {x.dtype}, expected {dt}", None, dict(feats, what="dtype"))
    if x.shape != want.shape:
        ctx.violation(oname, f"{fx.name}: read({o}, {n}) shape {x.shape}, the file encodes {want.shape} (time, channel, polarisation order)",
                      None, dict(feats, what="shape"))
        return False
    if tol is None:
        if not np.array_equal(x, want):
            bad = np.argwhere(x != want)[0]
            ctx.violation(oname, f"{fx.name}: read({o}, {n}) differs from the decoded stream at index {tuple(int(v) for v in bad)}: "
                                 f"{x[tuple(bad)]!r} vs {want[tuple(bad)]!r}", None, dict(feats, what="value"))
            return False
    elif n > 0:
        E = int(np.prod(x.shape[1:]))
        err = np.sqrt(np.sum(np.abs(x.reshape(n, E).astype(np.complex128) - want.reshape(n, E)) ** 2, axis=0))
        # errors of the conversion scale with the norm of its INPUT (the 2n real samples), not of the output
        seg = fx.stream[2 * o:2 * o + 2 * n].reshape(2 * n, -1).astype(np.float64)
        nrm_in = np.sqrt(np.sum(seg ** 2, axis=0))
        nrm = np.broadcast_to(nrm_in.reshape(-1) if nrm_in.size == E else np.full(E, nrm_in.max()), (E,)) + 1e-300
        ctx.stat_max("hilbert_err_over_tol", float(np.max(err / (tol * nrm))))
        if np.any(err > tol * nrm):
            ctx.violation(oname, f"{fx.name}: read({o}, {n}) differs from the analytic conversion of stream samples [{2 * o}:{2 * o + 2 * n}] "
                                 f"(relative l2 error {float(np.max(err / nrm)):.3e})", None, dict(feats, what="value_hilbert"))
            return False
    # time stamps and metadata
    rate = exact.hz(sig.sample_rate)
    if abs(rate - fx.rate) > 4 * exact.REL * fx.rate:
        ctx.violation(oname, f"{fx.name}: sample_rate {sig.sample_rate}, file says {float(fx.rate)} Hz", None, dict(feats, what="rate"))
    if sig.start_time is None:
        ctx.violation(oname, f"{fx.name}: no start time", None, dict(feats, what="start_none"))
    else:
        d = exact.time_diff_s(sig.start_time, fx.fh_start) - F(o) / fx.rate
        if abs(d) > exact.time_tol(F(o) / fx.rate, 2):
            ctx.violation(oname, f"{fx.name}: read({o}, {n}) is stamped {float(d * fx.rate):+.4g} samples away from start + offset/rate",
                          None, dict(feats, what="start"))
    sp = fx.spec
    if "fc" in sp:
        if abs(float(exact.hz(sig.center_freq)) - sp["fc"]) > 1e-6 * sp["fc"] * 1e-6:
            ctx.violation(oname, f"{fx.name}: center_freq {sig.center_freq}, header says {sp['fc']} Hz", None, dict(feats, what="center_freq"))
        if sig.freq_align != ("center" if sig.shape[1] % 2 else sp["align"]):
            ctx.violation(oname, f"{fx.name}: freq_align {sig.freq_align!r}, expected {sp['align']!r}", None, dict(feats, what="freq_align"))
    if "bw" in sp and abs(float(exact.hz(sig.chan_bw)) - sp["bw"]) > 1e-9 * sp["bw"]:
        ctx.violation(oname, f"{fx.name}: chan_bw {sig.chan_bw}, header says {sp['bw']} Hz", None, dict(feats, what="chan_bw"))
    if "pol" in sp and sig.pol_type != sp["pol"]:
        ctx.violation(oname, f"{fx.name}: pol_type {sig.pol_type!r}, header says {sp['pol']!r}", None, dict(feats, what="pol_type"))
    if n > 0:
        ctx.count("nontrivial[read]")
    return True


def offsets_for(rng, fx):
    L, fr = fx.length, max(1, fx.frame // (2 if fx.real_baseband else 1))
    flen = L // max(1, len(fx.files))
    cands = [0, 1, fr - 1, fr, fr + 1, flen - 1, flen, flen + 1, L - 1, L, L // 2, int(rng.integers(0, L + 1)),
             # positions in the upper half of the narrow integer types (twice the value no longer fits the type)
             100, 120, 200, 250, 17000, 30000, 40000, 60000]
    return [int(c) for c in cands if 0 <= c <= L]


def wl_reads(ctx, idx, rng):
    fxs = ctx.fixtures
    fx = fxs[idx % len(fxs)]
    r = fx.reader
    L = fx.length
    offs = offsets_for(rng, fx)
    o = int(gen.pick(rng, offs))
    room = L - o
    n = int(gen.pick(rng, [0, min(room, 1), min(room, 2), min(room, 7), min(room, max(1, fx.frame // (2 if fx.real_baseband else 1)) + 1),
                           room, int(rng.integers(0, room + 1))]))
    path = "dask" if idx % 4 == 3 else "eager"
    # offsets / counts as narrow NumPy integer scalars (anything operator.index accepts denotes the same position)
    o_arg, n_arg, itype = o, n, "int"
    if rng.random() < 0.4:
        order = [np.int8, np.uint8, np.int16, np.uint16, np.int32, np.int64]       # narrowest first, half of the time
        for t in (order if rng.random() < 0.5 else rng.permutation(order)):
            if o <= np.iinfo(t).max and n <= np.iinfo(t).max:
                o_arg, n_arg, itype = t(o), t(n), np.dtype(t).name
                break
    desc = {"fixture": fx.name, "offset": o, "n": n, "path": path, "len": L, "int_type": itype}
    ctx.describe_case(desc)
    ctx.sample(desc)
    before_state = {k: snapshot.snap(v) for k, v in vars(r).items()}
    fd0 = nfds()
    _AUDIT["events"].clear()
    _AUDIT["on"] = True
    if path == "eager":
        sig, exc = ctx.call("read_model", r.read, o_arg, n_arg, where=f"{fx.name}.read({itype}({o}),{n})", features={"int_type": itype})
    else:
        ra0 = ctx.counters["read_array_calls"]
        dkw = {}
        if n > 0 and rng.random() < 0.5:
            # explicit chunks, possibly splitting the time axis
            dkw["chunks"] = (int(rng.integers(1, n + 1)),) + tuple(int(rng.integers(1, d + 1)) for d in r.sample_shape)
            desc["chunks"] = list(dkw["chunks"])
        sig, exc = ctx.call("read_model", r.dask_read, o_arg, n_arg, where=f"{fx.name}.dask_read({itype}({o}),{n},{dkw})",
                            features={"path": "dask", "empty_read": n == 0}, **dkw)
        if exc is None and ctx.counters["read_array_calls"] != ra0:
            ctx.violation("read_model", f"{fx.name}: dask_read touched the file while building the graph", None, {"what": "eager_dask"})
    if exc is None:
        ok = judge_read(ctx, fx, o, n, sig, path)
    _AUDIT["on"] = False
    ev = list(_AUDIT["events"])
    ctx.count("audit_open_events", len(ev))
    if exc is None and n > 0:
        ctx.count("oracle[audit]")
        opened = {p for p, _, _ in ev}
        if not opened:
            ctx.violation("read_model", f"{fx.name}: a read returned data without opening any data file (cached handle or block?)", None,
                          {"what": "no_open"})
        for p, mode, flags in ev:
            if mode is not None and any(c in str(mode) for c in "wa+x"):
                ctx.violation("read_model", f"{fx.name}: data file opened with mode {mode!r}", None, {"what": "write_mode"})
    after_state = {k: snapshot.snap(v) for k, v in vars(r).items()}
    ctx.count("oracle[reader_state]")
    for k in set(before_state) | set(after_state):
        d = snapshot.describe_diff(before_state.get(k), after_state.get(k), f"reader.{k}") if k in before_state and k in after_state else f"reader.{k} appeared/disappeared"
        if d:
            ctx.violation("stateless", f"{fx.name}: a read changed the reader's state: {d}", None, {"what": "reader_state"})
            break
    fd1 = nfds()
    if fd1 > fd0:
        ctx.violation("stateless", f"{fx.name}: open file descriptors grew from {fd0} to {fd1} after a read", None, {"what": "fd_leak"})
    ctx.bucket(fx.name, "o" + str(offs.index(o)), "n" + str(min(n, 9)), path, itype)
    # adjacent reads concatenate to the spanning read (formats without Hilbert conversion)
    if exc is None and not fx.real_baseband and n >= 2 and path == "eager":
        c = int(rng.integers(1, n))
        a, e1 = ctx.call("read_model", r.read, o, c)
        b, e2 = ctx.call("read_model", r.read, o + c, n - c)
        if e1 is None and e2 is None:
            ctx.count("oracle[adjacent]")
            j, e3 = ctx.call("read_model", pb.concatenate, [a, b], where="concatenate(adjacent reads)")
            if e3 is None:
                if not np.array_equal(np.asarray(j.data), np.asarray(sig.data)):
                    ctx.violation("read_model", f"{fx.name}: adjacent reads do not concatenate to the spanning read", None, {"what": "adjacent"})
                if abs(exact.time_diff_s(j.start_time, sig.start_time)) > exact.TIME_TOL_S * 2:
                    ctx.violation("read_model", f"{fx.name}: concatenated adjacent reads start at another time", None, {"what": "adjacent_start"})


def wl_positions(ctx, idx, rng):
    fx = ctx.fixtures[idx % len(ctx.fixtures)]
    r = fx.reader
    L = fx.length
    o = "positions"
    ks = sorted(set(offsets_for(rng, fx) + [int(v) for v in rng.integers(0, L + 1, size=4)]))
    ctx.describe_case({"fixture": fx.name, "ks": ks[:8]})
    if len(r) != L:
        ctx.violation(o, f"{fx.name}: len(reader) = {len(r)}, the stream has {L} samples", None, {"what": "len"})
    for k in ks:
        ctx.count("oracle[positions]")
        t, exc = ctx.call(o, r.time_at, k)
        if exc is not None:
            continue
        d = exact.time_diff_s(t, fx.fh_start) - F(k) / fx.rate
        if abs(d) > exact.time_tol(F(k) / fx.rate, 2):
            ctx.violation(o, f"{fx.name}: time_at({k}) is {float(d * fx.rate):+.4g} samples off", None, {"what": "time_at"})
        k2, exc = ctx.call(o, r.offset_at, t)
        if exc is None and k2 != k:
            ctx.violation(o, f"{fx.name}: offset_at(time_at({k})) = {k2}", None, {"what": "round_trip"})
        sc = gen.pick(rng, ["tai", "tt"])
        k2b, exc = ctx.call(o, r.offset_at, getattr(t, sc), where=f"offset_at(time in {sc})")
        if exc is None and k2b != k:
            ctx.violation(o, f"{fx.name}: offset_at(time_at({k}) expressed in {sc.upper()}) = {k2b}", None, {"what": "round_trip_scale"})
        if 0 <= k < L:
            inside_sc, exc = ctx.call(o, r.contains, getattr(t, sc), where=f"contains(time in {sc})")
            if exc is None and not bool(inside_sc):
                ctx.violation(o, f"{fx.name}: contains(time_at({k}) in {sc.upper()}) is False", None, {"what": "contains_scale"})
        unit = gen.pick(rng, [u.s, u.ms, u.us, u.min])
        q, exc = ctx.call(o, r.time_at, k, unit=unit)
        if exc is None:
            if not isinstance(q, u.Quantity) or q.unit != unit:
                ctx.violation(o, f"{fx.name}: time_at({k}, unit={unit}) returned {q!r}", None, {"what": "relative_unit"})
            else:
                k3, exc = ctx.call(o, r.offset_at, q)
                if exc is None and k3 != k:
                    ctx.violation(o, f"{fx.name}: offset_at(time_at({k}, unit={unit})) = {k3}", None, {"what": "round_trip_relative"})
        # nearest sample: a time 0.3 samples later still maps to k
        if 0 < k < L:
            k4, exc = ctx.call(o, r.offset_at, t + float(0.3 / fx.rate) * u.s)
            if exc is None and k4 != k:
                ctx.violation(o, f"{fx.name}: offset_at(time_at({k}) + 0.3 samples) = {k4}", None, {"what": "nearest"})
        inside, exc = ctx.call(o, r.contains, t)
        if exc is None and bool(inside) != (k < L):
            ctx.violation(o, f"{fx.name}: contains(time_at({k})) = {inside} (len {L})", None, {"what": "contains"})
    sp, exc = ctx.call(o, lambda: r.stop_time)
    if exc is None:
        d = exact.time_diff_s(sp, fx.fh_start) - F(L) / fx.rate
        if abs(d) > exact.time_tol(F(L) / fx.rate, 2):
            ctx.violation(o, f"{fx.name}: stop_time is {float(d * fx.rate):+.4g} samples off", None, {"what": "stop_time"})
    # out-of-range
    ctx.count("oracle[refusal]")
    ctx.call(o, r.read, -1, 1, expect=ValueError, where="read(-1, 1)")
    ctx.call(o, r.read, 0, -1, expect=ValueError, where="read(0, -1)")
    ctx.call(o, r.read, L, 1, expect=EOFError, where="read(len, 1)")
    ctx.call(o, r.read, int(rng.integers(0, L + 1)), L + 1, expect=EOFError, where="read(o, len+1)")
    ctx.call(o, r.read, L + 1, 0, expect=EOFError, where="read(len+1, 0)")
    ctx.call(o, r.offset_at, fx.fh_start - 2 * u.s - float(2 / fx.rate) * u.s, expect=EOFError, where="offset_at(before start)")
    ctx.call(o, r.offset_at, r.time_at(L) + float(2 / fx.rate) * u.s, expect=EOFError, where="offset_at(after stop)")
    ctx.call(o, r.read, 0.5, 1, expect=TypeError, where="read(0.5, 1)")
    dt_s = float(1 / fx.rate)
    for frac in (0.6, 1.0, 1.4):
        ctx.call(o, r.offset_at, fx.fh_start - frac * dt_s * u.s, expect=EOFError, where=f"offset_at(start - {frac} samples)")
        ctx.call(o, r.offset_at, (-frac * dt_s) * u.s, expect=EOFError, where=f"offset_at(-{frac} samples, relative)")
        ctx.call(o, r.offset_at, r.time_at(L) + frac * dt_s * u.s, expect=EOFError, where=f"offset_at(stop + {frac} samples)")
    k0, exc = ctx.call(o, r.offset_at, fx.fh_start - 0.3 * dt_s * u.s, where="offset_at(start - 0.3 samples)")
    if exc is None and k0 != 0:
        ctx.violation(o, f"{fx.name}: offset_at(start - 0.3 samples) = {k0}", None, {"what": "nearest_low"})
    kL, exc = ctx.call(o, r.offset_at, r.time_at(L) + 0.3 * dt_s * u.s, where="offset_at(stop + 0.3 samples)")
    if exc is None and kL != L:
        ctx.violation(o, f"{fx.name}: offset_at(stop + 0.3 samples) = {kL}", None, {"what": "nearest_high"})
    e0, exc = ctx.call(o, r.read, L, 0, where="read(len, 0)")
    ctx.bucket("positions", fx.name)


def wl_history(ctx, idx, rng):
    """Sequential random histories + concurrent hammering of few keys: one digest per key."""
    fx = ctx.fixtures[idx % len(ctx.fixtures)]
    r = fx.reader
    L = fx.length
    keys = []
    for _ in range(int(rng.integers(2, 5))):
        o = int(gen.pick(rng, [v for v in offsets_for(rng, fx) if v < L]))
        n = int(rng.integers(1, max(2, min(L - o, 3 * fx.frame) + 1)))
        keys.append((o, min(n, L - o)))
    ref = {}
    with probes.quiet():
        for (o, n) in keys:
            want, tol, dt = fx.model(o, n)
            s0 = r.read(o, n)
            ref[(o, n)] = digest(s0)
            judge_read(ctx, fx, o, n, s0, "eager", {"history": "reference"})
    mode = ["sequential", "threads", "dask_threads", "two_readers"][(idx // len(ctx.fixtures)) % 4]
    desc = {"fixture": fx.name, "keys": keys, "mode": mode}
    ctx.describe_case(desc)
    ctx.sample(desc, limit=4)
    o_ = "stateless"
    tool = inject.tool()
    trace = []
    if mode == "sequential":
        seq = [keys[int(i)] for i in rng.integers(0, len(keys), size=12)]
        for (o, n) in seq:
            kind = gen.pick(rng, ["read", "dask"])
            try:
                s = r.read(o, n) if kind == "read" else r.dask_read(o, n)
                trace.append(((o, n), kind, digest(s), None))
            except Exception as e:
                trace.append(((o, n), kind, None, e))
            # interleave failing calls: they must not disturb later reads
            if rng.random() < 0.3:
                try:
                    r.read(L, 5)
                except Exception:
                    pass
            if hasattr(r, "lower_sideband") and hasattr(r, "_in_sample_shape") and rng.random() < 0.3:
                # a refused assignment (mask of the wrong shape) must leave the reader as it was
                shp = tuple(r._in_sample_shape)
                bad = np.ones(shp + (2,), dtype=bool) if (not shp or rng.random() < 0.5) else np.bool_(True)
                ctx.count("history[refused_sideband_assignment]")
                try:
                    r.lower_sideband = bad
                except ValueError:
                    pass
                except Exception as e:
                    ctx.violation(o_, f"{fx.name}: lower_sideband = mask of shape {np.shape(bad)} raised {type(e).__name__}, expected ValueError",
                                  None, {"what": "setter_exc_type"})
                else:
                    ctx.violation(o_, f"{fx.name}: lower_sideband = mask of shape {np.shape(bad)} (stream sample shape {shp}) was accepted",
                                  None, {"what": "setter_accepted"})
    elif mode == "threads":
        nthreads = int(gen.pick(rng, [2, 4, 8, 16, 32]))
        per = 6
        tool.set_yield(float(gen.pick(rng, [0.0, 0.02, 0.1])), seed=int(rng.integers(1 << 30)), only_workers=True)
        plan = [[keys[int(i)] for i in rng.integers(0, len(keys), size=per)] for _ in range(nthreads)]
        order = []
        olock = threading.Lock()

        def worker(tid):
            out = []
            for (o, n) in plan[tid]:
                with olock:
                    order.append(("call", tid, (o, n)))
                try:
                    s = r.read(o, n)
                    out.append(((o, n), "read", digest(s), None))
                except Exception as e:
                    out.append(((o, n), "read", None, e))
                with olock:
                    order.append(("ret", tid, (o, n)))
            return out
        with ThreadPoolExecutor(max_workers=nthreads) as ex:
            for res in ex.map(worker, range(nthreads)):
                trace.extend(res)
        tool.clear_yield()
        ctx.count("yields_injected", tool.yields)
        ctx.count("thread_reads", nthreads * per)
        # interleaving fingerprint: number of calls that started while another read was in flight
        inflight, overlapped = 0, 0
        for ev, tid, _k in order:
            if ev == "call":
                if inflight:
                    overlapped += 1
                inflight += 1
            else:
                inflight -= 1
        ctx.count("overlapping_reads_observed", overlapped)
        ctx.notes.setdefault("set:interleavings", [])
        ctx.notes["set:interleavings"] = sorted(set(ctx.notes["set:interleavings"]) | {
            hashlib.blake2b(repr([(e, t) for e, t, _ in order]).encode(), digest_size=6).hexdigest()})
    elif mode == "dask_threads":
        pieces = []
        for (o, n) in keys * 2:
            pieces.append(((o, n), r.dask_read(o, n)))
        tool.set_yield(0.05, seed=int(rng.integers(1 << 30)), only_workers=True)
        try:
            outs = dask.compute(*[p.data for _, p in pieces], scheduler="threads", num_workers=int(gen.pick(rng, [2, 4, 8])))
            for (k, _), arr in zip(pieces, outs):
                a = np.ascontiguousarray(arr)
                trace.append((k, "dask_threads", hashlib.blake2b(a.tobytes() + str(a.shape).encode() + str(a.dtype).encode(),
                                                                 digest_size=12).hexdigest(), None))
        except Exception as e:
            trace.append((keys[0], "dask_threads", None, e))
        tool.clear_yield()
    else:
        # two different readers of the same file set read lazily at the same (offset, n) and computed in ONE graph
        others = [f for f in ctx.fixtures if f is not fx and f.files == fx.files and f.reader.shape == r.shape]
        if not others:
            with probes.quiet():
                r2 = fx.make_reader()
            fx2 = fx
        else:
            fx2 = others[0]
            r2 = fx2.reader
        (o, n) = keys[0]
        a, b = r.dask_read(o, n), r2.dask_read(o, n)
        try:
            xa, xb = dask.compute(a.data, b.data, scheduler=gen.pick(rng, ["threads", "synchronous"]))
            ctx.count("oracle[two_readers]")
            with probes.quiet():
                ea, eb = np.asarray(r.read(o, n).data), np.asarray(r2.read(o, n).data)
            if not np.array_equal(xa, ea) or not np.array_equal(xb, eb):
                ctx.violation(o_, f"{fx.name} + {fx2.name}: lazily read at the same (offset, n) and computed in one graph, the two readers do "
                                  f"not both return their own data (first ok: {np.array_equal(xa, ea)}, second ok: {np.array_equal(xb, eb)})",
                              None, {"what": "graph_collision"})
        except Exception as e:
            ctx.unexpected_exception(o_, e, "dask.compute(two readers)")
    quiet_dependency_warnings()
    ctx.count("oracle[history]")
    for k, kind, dg, exc in trace:
        ctx.count("history_events")
        if isinstance(exc, Warning):
            ctx.count("dependency_warning_raised_as_error")       # see quiet_dependency_warnings
            continue
        if exc is not None:
            ctx.violation(o_, f"{fx.name}: {kind}{k} raised {type(exc).__name__}: {exc} in mode {mode}", None,
                          {"what": "raised_in_history", "mode": mode})
            break
        if dg != ref[k]:
            ctx.violation(o_, f"{fx.name}: {kind}{k} returned different data in mode {mode} than the single-threaded reference read",
                          None, {"what": "history_mismatch", "mode": mode})
            break
    ctx.bucket("history", fx.name, mode, len(keys))


def wl_failpoints(ctx, idx, rng):
    fx = ctx.fixtures[idx % len(ctx.fixtures)]
    r = fx.reader
    L = fx.length
    o, n = int(rng.integers(0, max(1, L - 8))), int(rng.integers(1, 8))
    tool = inject.tool()
    with probes.quiet():
        ref = digest(r.read(o, n))
        K, _, exc = tool.count_call(lambda: r.read(o, n))
    if exc is not None or K == 0:
        return
    fd0 = nfds()
    before_state = {k: snapshot.snap(v) for k, v in vars(r).items()}
    ks = list(range(1, K + 1)) if K <= 60 else sorted(set(int(v) for v in rng.integers(1, K + 1, size=60)))
    for k in ks:
        with probes.quiet():
            res, exc, at = tool.fault_call(lambda: r.read(o, n), k)
            try:
                dg = digest(r.read(o, n))
            except Exception as e:
                ctx.violation("stateless", f"{fx.name}: after a fault injected at {at} the next read raises {type(e).__name__}", None,
                              {"what": "crash_point_raise"})
                break
        ctx.count("crash_points")
        if dg != ref:
            ctx.violation("stateless", f"{fx.name}: after a fault injected at {at} the next read({o},{n}) returns different data", None,
                          {"what": "crash_point_data"})
            break
    import gc
    gc.collect()
    after_state = {k: snapshot.snap(v) for k, v in vars(r).items()}
    for k in before_state:
        d = snapshot.describe_diff(before_state[k], after_state.get(k), f"reader.{k}")
        if d:
            ctx.violation("stateless", f"{fx.name}: crashed reads changed the reader: {d}", None, {"what": "crash_state"})
            break
    if nfds() > fd0 + 2:
        ctx.violation("stateless", f"{fx.name}: file descriptors leaked by crashed reads ({fd0} -> {nfds()})", None, {"what": "crash_fd"})
    ctx.bucket("failpoints", fx.name)
    ctx.describe_case({"fixture": fx.name, "offset": o, "n": n, "crash_points": len(ks)})


class ReadArrayCounter:
    def __init__(self, ctx):
        self.ctx = ctx

    def install(self):
        for cls in (pb.readers.BaseReader, pb.readers.BasebandReader, pb.readers.GUPPIRawReader, pb.readers.DADAStokesReader):
            if "_read_array" in cls.__dict__:
                probes.attach(cls, "_read_array", self, f"{cls.__name__}._read_array")
        return self

    def pre(self, point, args, kwargs):
        if threading.current_thread() is threading.main_thread():
            self.ctx.count("read_array_calls")
        return None

    def post(self, *a):
        return None


def workloads(ctx):
    q = ctx.tier == "quick"
    nfx = 18
    return [("reads", nfx * (12 if q else 240), wl_reads), ("positions", nfx * (1 if q else 8), wl_positions),
            ("history", nfx * 4 * (1 if q else 12), wl_history), ("failpoints", nfx * (1 if q else 3), wl_failpoints),
            ("relabelled", nfx * (1 if q else 6), wl_relabelled), ("user_reader", 60 if q else 1200, wl_user_reader)]


class ArrayReader(pb.readers.BaseReader):
    """A user-defined reader (the documented extension point): samples served from an in-memory array."""

    def __init__(self, array, **kw):
        self._array = array
        super().__init__(shape=array.shape, dtype=array.dtype, **kw)

    def _read_array(self, offset, n, /, **kwargs):
        return self._array[offset:offset + n].copy()


def wl_user_reader(ctx, idx, rng):
    """The base-class behaviour through a user subclass, with and without a start time."""
    o = "positions"
    L = int(gen.pick(rng, [1, 7, 100, 1000]))
    shape = (L,) + gen.pick(rng, [(), (3,), (2, 2)])
    arr = gen.rand_data(rng, shape, gen.pick(rng, [np.float32, np.complex64, np.int16]))
    rate_q = gen.rand_rate(rng, lo=0, hi=8)
    start = gen.rand_time(rng, p_none=0.5)
    with probes.quiet():
        r = ArrayReader(arr, sample_rate=rate_q, start_time=start)
    rate = exact.hz(rate_q)
    ctx.describe_case({"reader": "ArrayReader", "len": L, "start": None if start is None else start.isot, "rate": str(rate_q)})
    ctx.count("oracle[user_reader]")
    if len(r) != L:
        ctx.violation(o, f"ArrayReader: len = {len(r)}, the array has {L} samples", None, {"what": "len"})
    for k in sorted(set([0, L // 2, L] + [int(v) for v in rng.integers(0, L + 1, size=2)])):
        unit = gen.pick(rng, [u.s, u.ms, u.us])
        q, exc = ctx.call(o, r.time_at, k, unit=unit, where="time_at(k, unit=)")
        if exc is None:
            if not isinstance(q, u.Quantity):
                ctx.violation(o, f"ArrayReader(start_time={'None' if start is None else 'set'}): time_at({k}, unit={unit}) returned {q!r}, "
                                 "not the time relative to the start", None, {"what": "relative_time", "has_start": start is not None})
            else:
                d = F(float(q.to_value(u.s))) - F(k) / rate
                if abs(d) > exact.REL * F(k) / rate + F(1, 10 ** 18):
                    ctx.violation(o, f"ArrayReader: time_at({k}, unit=) is {float(d * rate):+.3g} samples off", None, {"what": "relative_time_value"})
                k2, exc2 = ctx.call(o, r.offset_at, q, where="offset_at(relative time)")
                if exc2 is None and k2 != k:
                    ctx.violation(o, f"ArrayReader: offset_at(time_at({k}, unit={unit})) = {k2}", None, {"what": "round_trip_relative"})
        t, exc = ctx.call(o, r.time_at, k, where="time_at(k)")
        if exc is None:
            if start is None:
                if t is not None:
                    ctx.violation(o, f"ArrayReader without a start time: time_at({k}) = {t!r}", None, {"what": "absolute_without_start"})
            else:
                d = exact.time_diff_s(t, start) - F(k) / rate
                if abs(d) > exact.time_tol(F(k) / rate, 2):
                    ctx.violation(o, f"ArrayReader: time_at({k}) is {float(d * rate):+.4g} samples off", None, {"what": "time_at"})
                k3, exc3 = ctx.call(o, r.offset_at, t, where="offset_at(absolute time)")
                if exc3 is None and k3 != k:
                    ctx.violation(o, f"ArrayReader: offset_at(time_at({k})) = {k3}", None, {"what": "round_trip"})
        if k < L:
            n = int(min(L - k, rng.integers(0, 9)))
            for how in ("read", "dask_read"):
                if how == "dask_read" and n == 0:
                    continue        # the recorded finding dask-read-zero-samples (judged in the reads workload)
                sg, exc = ctx.call(o, getattr(r, how), k, n, where=how)
                if exc is None:
                    with probes.quiet():
                        got = gen.np_data(sg)
                    if got.shape != arr[k:k + n].shape or not np.array_equal(got, arr[k:k + n]):
                        ctx.violation(o, f"ArrayReader.{how}({k}, {n}) does not return samples [{k}:{k + n}] of the array", None, {"what": "data"})
                    if (sg.start_time is None) != (start is None):
                        ctx.violation(o, f"ArrayReader.{how}: start_time presence differs from the reader's", None, {"what": "start_presence"})
                    elif start is not None:
                        dd = exact.time_diff_s(sg.start_time, start) - F(k) / rate
                        if abs(dd) > exact.time_tol(F(k) / rate, 2):
                            ctx.violation(o, f"ArrayReader.{how}({k}, {n}).start_time is {float(dd * rate):+.4g} samples off", None, {"what": "read_start"})
    ctx.call(o, r.read, L, 1, expect=EOFError, where="read(len, 1)")
    ctx.call(o, r.read, -1, 1, expect=ValueError, where="read(-1, 1)")
    ctx.bucket("user_reader", L, start is None, len(shape))


def wl_relabelled(ctx, idx, rng):
    """A reader whose sample_rate / start_time were corrected through the public setters after construction (a nominal header
    value replaced by the true one): positions and read labels follow the assigned values."""
    fx = ctx.fixtures[idx % len(ctx.fixtures)]
    o = "positions"
    with probes.quiet():
        r = fx.make_reader()
        _ = (r.dt, r.stop_time, r.time_length, len(r), r.time_at(1))
        new_rate = r.sample_rate * float(gen.pick(rng, [2.0, 0.5, 1.0009765625]))
        new_start = r.start_time + float(rng.uniform(-3, 3)) * u.s
        r.sample_rate = new_rate
        r.start_time = new_start
    rate = exact.hz(new_rate)
    L = fx.length
    ctx.describe_case({"fixture": fx.name, "relabelled": True, "rate": str(new_rate)})
    for k in sorted(set([0, 1, L // 2, L - 1, L] + [int(v) for v in rng.integers(0, L + 1, size=3)])):
        ctx.count("oracle[positions_relabelled]")
        t, exc = ctx.call(o, r.time_at, k)
        if exc is not None:
            continue
        d = exact.time_diff_s(t, new_start) - F(k) / rate
        if abs(d) > exact.time_tol(F(k) / rate, 2):
            ctx.violation(o, f"{fx.name}: after sample_rate/start_time were reassigned, time_at({k}) is {float(d * rate):+.4g} samples off "
                             "the assigned start + k / assigned rate", None, {"what": "time_at_after_setter"})
        k2, exc = ctx.call(o, r.offset_at, t)
        if exc is None and k2 != k:
            ctx.violation(o, f"{fx.name}: after the setters, offset_at(time_at({k})) = {k2}", None, {"what": "round_trip_after_setter"})
        q, exc = ctx.call(o, r.time_at, k, unit=u.s)
        if exc is None:
            k3, exc = ctx.call(o, r.offset_at, q)
            if exc is None and k3 != k:
                ctx.violation(o, f"{fx.name}: after the setters, offset_at(time_at({k}, unit=s)) = {k3}", None, {"what": "round_trip_relative_after_setter"})
        if k < L:
            n = int(min(L - k, rng.integers(1, 9)))
            sg, exc = ctx.call(o, r.read, k, n, where="read after setters")
            if exc is None:
                if exact.hz(sg.sample_rate) != rate:
                    ctx.violation(o, f"{fx.name}: read() after the setters carries sample_rate {sg.sample_rate}, assigned {new_rate}", None,
                                  {"what": "read_rate_after_setter"})
                dd = exact.time_diff_s(sg.start_time, new_start) - F(k) / rate
                if abs(dd) > exact.time_tol(F(k) / rate, 2):
                    ctx.violation(o, f"{fx.name}: read({k}, {n}).start_time is {float(dd * rate):+.4g} samples off after the setters", None,
                                  {"what": "read_start_after_setter"})
    sp, exc = ctx.call(o, lambda: r.stop_time)
    if exc is None:
        d = exact.time_diff_s(sp, new_start) - F(L) / rate
        if abs(d) > exact.time_tol(F(L) / rate, 2):
            ctx.violation(o, f"{fx.name}: stop_time is {float(d * rate):+.4g} samples off after the setters", None, {"what": "stop_time_after_setter"})
    ctx.bucket("relabelled", fx.name)
    del r
    gc.collect()


def quiet_dependency_warnings():
    """baseband 4.2 calls astropy's deprecated ``isiterable`` on every open of a file list, and its ``info.continuous`` check
    runs under ``warnings.simplefilter('error')`` inside ``catch_warnings`` - which is process-global, not per thread.  With
    concurrent opens the deprecation warning of one thread is raised as an exception in another (and the filter list can be
    left in the 'error' state).  That is a property of the dependencies, not of pulsarbat: remove the warning at its source
    and restore the filters after every concurrent phase."""
    import warnings
    import baseband.base.base as bbb
    bbb.isiterable = np.iterable
    warnings.resetwarnings()
    warnings.filterwarnings("ignore")


def setup(ctx):
    quiet_dependency_warnings()
    if not _AUDIT["installed"]:
        sys.addaudithook(_audit)
        _AUDIT["installed"] = True
    frng = np.random.Generator(np.random.PCG64([ctx.seed, 11, 7]))
    with probes.quiet():
        ctx.fixtures = build_fixtures(ctx.scratch, frng)
    ctx.file_hashes = {}
    for f in ctx.fixtures:
        for p in f.files:
            with open(p, "rb") as fh:
                ctx.file_hashes[p] = hashlib.blake2b(fh.read(), digest_size=16).hexdigest()
    ReadArrayCounter(ctx).install()

    def teardown():
        probes.detach_all()
        inject.tool().stop()
    return teardown


def finalize(ctx):
    for e in probes.monitor_errors():
        ctx.inconclusive_because("monitor error: " + e[:600])
    # the data files themselves are unchanged
    for p, h in ctx.file_hashes.items():
        with open(p, "rb") as fh:
            if hashlib.blake2b(fh.read(), digest_size=16).hexdigest() != h:
                ctx.violation("stateless", f"data file {os.path.basename(p)} was modified by reading", None, {"what": "file_modified"})
    ctx.count("oracle[file_bytes]", len(ctx.file_hashes))
    ctx.note("fixtures", [f.name for f in ctx.fixtures])
    ctx.require("nontrivial[read]", 150, "reads compared with the reference model")
    ctx.require("oracle[positions]", 100, "offset/time round trips")
    ctx.require("history_events", 300, "history events")
    ctx.require("thread_reads", 200, "concurrent reads")
    ctx.require("crash_points", 100, "reader crash points")
    ctx.require("oracle[two_readers]", 8, "two readers in one graph")
