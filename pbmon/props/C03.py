"""C03 - time_shift is a band-limited delay with exact zero-fill and no wrap-around."""

import math
from fractions import Fraction as F

import numpy as np
import astropy.units as u
import dask.array as da
import pulsarbat as pb

from .. import exact, gen, probes, monitors, dsp, refdft, oracles

from ..replay import wl_R

RULE = ("N in {1,2,3,5,16,17,101,256,1009,4096,(thorough: up to 65536)} x dtype {f4,f8,c8,c16} x sample shapes (),(3,),(4,2),(2,1,3) x "
        "shift kind {integer, fractional, time Quantity, |s|>=N, mixed signs, zeros among non-zeros} x shift-array shape {scalar, full, "
        "lower rank, length-1 axes in every position} x NumPy/Dask (chunked off time). Every time_shift call (also the one inside "
        "snippet) is compared per element with an independent DFT shift-theorem reference and with exact zero on the out-of-range "
        "region. Non-trivial = value oracle ran on finite data with a non-zero shift; distinct = (N class, dtype, sample rank, shift "
        "kind, shift shape kind, backend).")
ASSUMPTIONS = [
    "value tolerance 2^-20*||x_e||_2 (float64/complex128; the documented complex64 phase ramp allows 2^-24.5*||x||_2) and "
    "2^-19*(1+log2 N/8)*||x_e||_2 for float32/complex64 data",
    "shifts with |s| <= 1e-6 samples, and Quantity shifts within 1e-9 of a whole sample, leave the boundary sample unconstrained "
    "(time_shift treats np.allclose(shift, 0) as no shift)",
    "shift arrays are aligned with the leading sample axes (pulsarbat's documented rule)",
]
BUDGET = {"quick": 110, "thorough": 1200}


def value_tol(dtype, N):
    if np.dtype(dtype) in (np.dtype(np.float32), np.dtype(np.complex64)):
        return 2.0 ** -19 * (1 + math.log2(N + 1) / 8)
    return 2.0 ** -20


class TimeShiftMonitor:
    """Postcondition of every pb.time_shift call."""

    def __init__(self, ctx, oracle="time_shift"):
        self.ctx = ctx
        self.o = oracle

    def install(self):
        probes.attach(pb.transforms.transforms, "time_shift", self, "time_shift")
        return self

    def pre(self, point, args, kwargs):
        z = args[0]
        if not isinstance(z, pb.Signal):
            return None
        return monitors.meta_of(z)

    def post(self, point, args, kwargs, m, out, exc):
        ctx, o = self.ctx, self.o
        if m is None:
            return
        z = args[0]
        shift = args[1] if len(args) > 1 else kwargs.get("shift")
        crop = args[2] if len(args) > 2 else kwargs.get("crop", False)
        if exc is not None:
            return
        ctx.count("time_shift_events")
        N = m["len"]
        sshape = m["shape"][1:]
        quantity = isinstance(shift, u.Quantity)
        try:
            if quantity:
                sh = (shift * m["rate_q"]).to_value(u.one)
            else:
                sh = np.asarray(shift, dtype=np.float64)
            s_b = np.array(dsp.broadcast_left(sh, sshape), dtype=np.float64)
        except Exception:
            return
        feats = {"cls": m["cls"].__name__, "quantity": quantity, "dask": m["dask"], "crop": bool(crop),
                 "shift_ndim": int(np.ndim(sh)), "sample_ndim": len(sshape),
                 "shift_broadcast": bool(np.shape(sh) != tuple(sshape) and np.ndim(sh) > 0)}
        if not isinstance(out, pb.Signal):
            ctx.violation(o, f"time_shift returned {type(out).__name__}", None, dict(feats, what="type"))
            return
        if type(out) is not m["cls"]:
            ctx.violation(o, f"time_shift changed the class {m['cls'].__name__} -> {type(out).__name__}", None, dict(feats, what="class"))
        mo = monitors.meta_of(out)
        for k in ("rate", "fc", "bw", "align", "pol", "meta", "dtype"):
            if k in m and m[k] != mo.get(k):
                if k == "dtype" and out is z:
                    continue
                if k == "dtype" and np.dtype(m[k]).kind in "iub" and np.dtype(mo.get(k)).kind == "f":
                    continue        # integer samples delayed by the shift theorem are real numbers
                ctx.violation(o, f"time_shift changed {k}: {m[k]!r} -> {mo.get(k)!r}", None, dict(feats, what="meta_" + k))
        if out is z:
            if np.any(np.abs(s_b) > 1e-6):
                ctx.violation(o, f"time_shift returned its input although the shift is {np.abs(s_b).max()} samples", None,
                              dict(feats, what="noop"))
            ctx.count("noop_shift")
            return
        if m["dask"] != mo["dask"]:
            ctx.violation(o, "time_shift changed the data container", None, dict(feats, what="container"))
        if np.dtype(m["dtype"]).kind in "iub" and np.dtype(mo["dtype"]).kind in "iub" and np.any(np.abs(s_b - np.round(s_b)) > 1e-6):
            ctx.violation(o, f"fractional shift of {m['dtype']} data returned {mo['dtype']} samples: the delayed values were rounded back to integers",
                          None, dict(feats, what="int_truncation"))
        if N == 0:
            return
        x = gen.np_data(z)
        y = gen.np_data(out)
        if not np.all(np.isfinite(x)):
            ctx.count("skipped_nonfinite")
            return
        if N * int(np.prod(sshape) if sshape else 1) > 1 << 21:
            ctx.count("skipped_too_large")
            return
        ref = dsp.ref_time_shift(x, s_b)
        zero = dsp.zero_regions(s_b, N)
        # boundary sample ambiguity
        tiny = np.abs(s_b) <= 1e-6
        near_int = np.abs(s_b - np.round(s_b)) < 1e-9
        amb_elem = tiny | (near_int & quantity & (s_b != np.round(s_b)))
        # expected full (uncropped) result
        start = int(max(0, np.max(np.where(s_b >= 0, np.ceil(s_b), 0)))) if s_b.size else 0
        stop = int(min(0, np.min(np.where(s_b < 0, np.floor(s_b), 0)))) if s_b.size else 0
        if crop:
            if np.any(amb_elem):
                ctx.count("ambiguous[crop_boundary]")
                return
            b, e = oracles.kept_range(start, N + stop, N)
            sl = slice(b, e)
            feats = dict(feats, beyond_length=bool(N + stop < 0))
            ref_c, zero_c = ref[sl], zero[sl]
            if y.shape != ref_c.shape:
                ctx.violation(o, f"cropped result has shape {y.shape}, expected {ref_c.shape} = uncropped samples [{b}, {e}) (edge samples: first {start}, last {-stop})",
                              {"shift": np.asarray(sh).tolist() if np.size(sh) < 9 else str(np.shape(sh))}, dict(feats, what="crop_shape"))
                return
            # start time per C01
            if m["start"] is not None and len(out) > 0:
                got = exact.time_diff_s(out.start_time, m["start"]) if out.start_time is not None else None
                want = F(b) / m["rate"]
                if got is None or abs(got - want) > exact.time_tol(want, 2):
                    ctx.violation(o, f"cropped time_shift start_time advanced by {None if got is None else float(got)} s, expected {float(want)} s",
                                  None, dict(feats, what="crop_start"))
            ref, zero = ref_c, zero_c
            n_off = b
        else:
            if y.shape != x.shape:
                ctx.violation(o, f"uncropped time_shift changed the shape {x.shape} -> {y.shape}", None, dict(feats, what="shape"))
                return
            if not monitors.same_time(mo["start"], m["start"], 0):
                ctx.violation(o, "uncropped time_shift changed start_time", None, dict(feats, what="start"))
            n_off = 0
        if y.size == 0:
            return
        ctx.count("oracle[time_shift_values]")
        E = int(np.prod(sshape)) if sshape else 1
        L = y.shape[0]
        y2, r2, z2 = y.reshape(L, E), ref.reshape(L, E), zero.reshape(L, E)
        norm = refdft.l2(x.reshape(N, E), axis=0)
        tol = value_tol(m["dtype"], N) * norm + 1e-300
        amb = amb_elem.reshape(E)
        sflat = s_b.reshape(E)
        # 1. exact zeros
        bad = z2 & (y2 != 0)
        if np.any(amb):
            # boundary sample of ambiguous elements is unconstrained
            for e_ in np.nonzero(amb)[0]:
                bad[:, e_] = False
            ctx.count("ambiguous[boundary_sample]", int(amb.sum()))
        if np.any(bad):
            n_, e_ = np.argwhere(bad)[0]
            idx_e = np.unravel_index(e_, sshape) if sshape else ()
            first_b = any(i > 0 for i, d in zip(idx_e, np.shape(sh) + (1,) * (len(sshape) - np.ndim(sh))) if d == 1) if np.ndim(sh) else False
            ctx.violation(o, f"sample {n_ + n_off} of element {tuple(int(i) for i in idx_e)} (shift {sflat[e_]!r}) has its source outside "
                             f"the input but is {y2[n_, e_]!r}, not exactly 0 ({int(bad.sum())} such samples)",
                          {"N": N, "shift": np.asarray(sh).tolist() if np.size(sh) < 9 else str(np.shape(sh))},
                          dict(feats, what="zero_fill", broadcast_element=bool(first_b)))
        # 2. values outside the zero region
        err = np.abs(y2 - r2)
        err[z2] = 0
        for e_ in np.nonzero(amb)[0]:
            # the one boundary sample may be zero or not
            col = z2[:, e_]
            # nothing to do for values: ambiguity only concerns the zero region's edge sample
            if sflat[e_] > 0:
                k_ = int(math.ceil(sflat[e_])) - n_off
                for kk in (k_ - 1, k_):
                    if 0 <= kk < L:
                        err[kk, e_] = 0
            else:
                k_ = L - int(math.ceil(-sflat[e_])) if sflat[e_] < 0 else None
                if k_ is not None:
                    for kk in (k_ - 1, k_):
                        if 0 <= kk < L:
                            err[kk, e_] = 0
        # l2 norm of the error per element (rigorous for errors injected in the Fourier domain, and >= any pointwise error)
        l2err = np.sqrt(np.sum(err ** 2, axis=0))
        over_e = l2err > tol
        ctx.stat_max(f"l2err_over_tol[{np.dtype(m['dtype']).name}]", float(np.max(l2err / tol)))
        if np.any(over_e):
            e_ = int(np.nonzero(over_e)[0][0])
            n_ = int(np.argmax(err[:, e_]))
            idx_e = np.unravel_index(e_, sshape) if sshape else ()
            ctx.violation(o, f"sample {n_ + n_off} of element {tuple(int(i) for i in idx_e)} (shift {sflat[e_]!r}, N={N}, {m['dtype']}) is "
                             f"{y2[n_, e_]!r}, DFT shift-theorem reference {r2[n_, e_]!r}: |err|={err[n_, e_]:.3e}; l2 error of the element "
                             f"{l2err[e_]:.3e} > tol {tol[e_]:.3e} (= {l2err[e_] / (norm[e_] + 1e-300):.3e} ||x||_2)",
                          {"N": N, "shift": np.asarray(sh).tolist() if np.size(sh) < 9 else str(np.shape(sh))},
                          dict(feats, what="value", integer_shift=bool(sflat[e_] == round(sflat[e_]))))
        # 3. integer shifts move samples exactly (to tolerance): y[n] = x[n - s]
        x2 = x.reshape(N, E)
        for e_ in range(E):
            s_ = sflat[e_]
            if s_ == round(s_) and abs(s_) < N and not amb[e_]:
                s_i = int(s_)
                n_idx = np.arange(L) + n_off
                src = n_idx - s_i
                ok = (src >= 0) & (src < N)
                if np.any(ok):
                    d = np.abs(y2[ok, e_] - x2[src[ok], e_])
                    if np.any(d > tol[e_]):
                        ctx.violation(o, f"integer shift {s_i}: output sample n is not input sample n-{s_i} (max err {d.max():.3e})",
                                      {"N": N}, dict(feats, what="integer_move"))
                        break
        if np.any(np.abs(sflat) > 1e-6):
            ctx.count("nontrivial[time_shift]")


# ------------------------------------------------------------------------------------------------
NS_QUICK = [1, 2, 3, 5, 16, 17, 101, 256, 1009, 4096]
SSHAPES = [(), (3,), (4, 2), (2, 1, 3), (2, 2), (3, 3, 1)]
SHIFT_KINDS = ["int", "frac", "quantity", "long", "mixed", "zeros_among", "half", "quantity_whole", "near_int_large"]
SHAPE_KINDS = ["scalar", "full", "lower", "len1_first", "len1_last", "len1_all"]


def make_shift(rng, N, sshape, kind, shape_kind):
    if shape_kind == "scalar" or not sshape:
        shp = ()
    elif shape_kind == "full":
        shp = sshape
    elif shape_kind == "lower":
        shp = sshape[:max(1, len(sshape) - 1)] if len(sshape) > 1 else (1,)
    elif shape_kind == "len1_first":
        shp = (1,) + sshape[1:]
    elif shape_kind == "len1_last":
        shp = sshape[:-1] + (1,)
    else:
        shp = (1,) * int(rng.integers(1, len(sshape) + 1))
    lim = max(1, min(N, 12))
    if kind == "int":
        s = rng.integers(-lim, lim + 1, size=shp).astype(float)
    elif kind in ("frac", "quantity"):
        s = rng.uniform(-lim, lim, size=shp)
    elif kind == "long":
        s = rng.uniform(N * 0.9, N * 2.5, size=shp) * rng.choice([-1, 1], size=shp)
    elif kind == "mixed":
        s = rng.uniform(-lim, lim, size=shp)
        if np.size(s) > 1:
            s.flat[0], s.flat[-1] = abs(s.flat[0]) + 0.1, -abs(s.flat[-1]) - 0.1
    elif kind == "zeros_among":
        s = rng.integers(-lim, lim + 1, size=shp).astype(float)
        if np.size(s) > 1:
            s.flat[int(rng.integers(np.size(s)))] = 0.0
            if not np.any(s):
                s.flat[0] = 1.0
        elif rng.random() < 0.5:
            s = s * 0 + 1.5
    elif kind == "near_int_large":
        # many samples plus a small fraction (1500.01): relative to the shift the fraction is tiny, in samples it is not
        big = max(2, int(N * 0.8))
        s = rng.integers(max(1, big // 3), big + 1, size=shp) * rng.choice([-1, 1], size=shp) + rng.choice([0.01, 0.004, -0.02, 0.0075], size=shp)
    else:  # half
        s = rng.integers(-lim, lim, size=shp) + 0.5
    if np.ndim(s) == 0:
        s = float(s)
        if s == 0.0 and kind != "zeros_among":
            s = 0.75
    return s


def wl_shift(ctx, idx, rng):
    big = ctx.tier == "thorough"
    Ns = NS_QUICK + ([7, 64, 1000, 16384, 65536] if big else [])
    N = Ns[idx % len(Ns)]
    sshape = SSHAPES[(idx // len(Ns)) % 4] if rng.random() < 0.8 else SSHAPES[4 + int(rng.integers(2))]
    kind = SHIFT_KINDS[(idx // (len(Ns) * 4)) % len(SHIFT_KINDS)]
    shape_kind = SHAPE_KINDS[int(rng.integers(len(SHAPE_KINDS)))]
    dtype = gen.pick(rng, [np.float32, np.float64, np.complex64, np.complex128])
    if N >= 4096 and len(sshape) > 1:
        sshape = sshape[:1]
    use_dask = rng.random() < 0.25
    clsname = "Signal"
    nd = np.dtype(dtype)
    # use a radio class when the shape allows, to check class/metadata preservation
    if len(sshape) >= 1 and rng.random() < 0.6:
        if nd.kind == "c":
            clsname = "DualPolarizationSignal" if (len(sshape) > 1 and sshape[1] == 2) else "BasebandSignal"
        else:
            clsname = gen.pick(rng, ["RadioSignal", "IntensitySignal"])
    if clsname == "Signal" and nd.kind == "f" and rng.random() < 0.25:
        dtype = gen.pick(rng, [np.int16, np.int8, np.int32, np.uint8])      # raw integer counts
        nd = np.dtype(dtype)
    rate = gen.rand_rate(rng, lo=0, hi=8) if kind != "quantity" else gen.rand_rate(rng, lo=0, hi=9.6)
    whole = None
    if kind == "quantity_whole":
        # a delay that is a whole number of samples, written in the time unit that pairs with the rate's unit (R MHz x T us = R*T
        # samples exactly, also in float64): the conversion to samples must not land just above the integer
        ru, tu = [(u.MHz, u.us), (u.GHz, u.ns), (u.kHz, u.ms), (u.Hz, u.s), (u.MHz, u.ms)][int(rng.integers(5))]
        R = int(rng.integers(1, 40))
        rate = R * ru
        whole = tu
    x = gen.rand_data(rng, (N,) + sshape, dtype)
    # plant tones / impulses so wrap-around is visible in every element
    if N >= 3 and rng.random() < 0.5:
        x[0] += 5
        x[-1] += 7
    sig, desc = gen.make_signal(rng, clsname, N, data=x, rate=rate, dask=use_dask, mem="readonly" if gen._side_rng(rng).random() < 0.1 else "rand")
    s = make_shift(rng, N, sshape, kind if whole is None else "int", shape_kind)
    if np.ndim(s) >= 2 and rng.random() < 0.35:
        s = np.asfortranarray(s)            # a delay table passed transposed: same values, column-major memory
    if kind == "int" and whole is None and rng.random() < 0.4:
        # whole-sample delays held in an integer dtype (a table of sample offsets): unsigned when all are >= 0
        sa = np.asarray(s)
        it = gen.pick(rng, [np.uint8, np.uint16, np.uint32]) if np.all(sa >= 0) else gen.pick(rng, [np.int8, np.int16, np.int64])
        if np.all(np.abs(sa) <= np.iinfo(it).max):
            s = sa.astype(it) if sa.ndim else it(int(sa))
    sq = s
    if whole is not None:
        T = np.round(np.asarray(s, dtype=float) / R) if abs(np.max(np.abs(s))) >= R else np.sign(s)
        T = np.where(T == 0, 1.0, T)
        sq = (T if np.ndim(T) else float(T)) * whole
        s = np.asarray(T) * R * (1e3 if (whole is u.ms and rate.unit is u.MHz) else 1.0)
        s = s if np.ndim(s) else float(s)
    if kind == "quantity":
        # the same delay written in units from ns to days (numeric values from 1e-15 to 1e+9)
        sq = (s / sig.sample_rate).to(gen.pick(rng, [u.s, u.ms, u.us, u.ns, u.min, u.hr, u.day, u.ks]))
    crop = bool(rng.integers(2))
    desc.update(N=N, shift=(np.asarray(s).tolist() if np.size(s) < 9 else str(np.shape(s))), shift_kind=kind, shape_kind=shape_kind, crop=crop)
    ctx.describe_case(desc)
    ctx.sample(desc)
    before = ctx.counters["time_shift_events"]
    if kind == "zeros_among" and np.ndim(sq) and rng.random() < 0.5:
        sq = np.where(sq == 0, -0.0, sq)       # negative zero entries (the negation of a delay table): still "no shift"
    if use_dask and N >= 1009 and rng.random() < 0.5:
        import dask
        with dask.config.set({"array.chunk-size": "4KiB"}):
            out, exc = ctx.call("time_shift", pb.time_shift, sig, sq, crop=crop, where="time_shift under array.chunk-size=4KiB",
                                features={"dask_config": "small_chunk_size"})
        ctx.count("dask_small_chunk_config")
    else:
        out, exc = ctx.call("time_shift", pb.time_shift, sig, sq, crop=crop)
    if exc is None and ctx.counters["time_shift_events"] == before:
        ctx.inconclusive_because("time_shift probe did not fire")
    if exc is None:
        # crop=True must equal crop=False with the edge samples removed (both judged against the same reference by the monitor)
        out2, exc2 = ctx.call("time_shift", pb.time_shift, sig, sq, crop=not crop)
        if exc2 is None and out is not sig and out2 is not sig:
            ctx.bucket(("N", N if N < 300 else "big"), nd.name, len(sshape), kind, shape_kind, "dask" if use_dask else "np")
    if exc is None and use_dask:
        # several lazy results of the same length evaluated in one graph: another shift on the same signal, the same shift on other data
        s2 = make_shift(rng, N, sshape, kind if kind != "quantity" else "frac", shape_kind)
        o3, e3 = ctx.call("time_shift", pb.time_shift, sig, s2, crop=crop)
        sig_b, _ = gen.make_signal(rng, clsname, N, data=gen.rand_data(rng, (N,) + sshape, dtype), rate=rate, dask=True)
        o4, e4 = ctx.call("time_shift", pb.time_shift, sig_b, sq, crop=crop)
        monitors.joint_compute_check(ctx, "time_shift", [r for r, e in ((out, exc), (o3, e3), (o4, e4)) if e is None and isinstance(r, pb.Signal)],
                                     {"cls": clsname, "dask": True}, "time_shift results of equal length")
    if exc is None and len(sshape) >= 2 and rng.random() < 0.5:
        # call history: the same numbers given in another orientation right after (anything remembered from the previous call must not leak)
        v = np.atleast_1d(np.asarray(s, dtype=float)).ravel()
        for shp in {(v.size,), (1, v.size), (v.size, 1)}:
            if len(shp) <= len(sshape) and all(a in (1, b) for a, b in zip(shp, sshape)) and shp != np.shape(s):
                ctx.call("time_shift", pb.time_shift, sig, v.reshape(shp), crop=crop)
                ctx.count("history[reoriented_shift]")
    # shift with too many dimensions must raise ValueError
    if rng.random() < 0.1:
        bad = np.ones((1,) * (len(sshape) + 1))
        ctx.call("time_shift", pb.time_shift, sig, bad, expect=ValueError, where="time_shift(too many dims)")


def install_universal(ctx):
    TimeShiftMonitor(ctx).install()
    return probes.detach_all


def workloads(ctx):
    q = ctx.tier == "quick"
    return [("R", 1, wl_R), ("shift", 5040 if q else 47000, wl_shift)]


def setup(ctx):
    TimeShiftMonitor(ctx).install()
    return probes.detach_all


def finalize(ctx):
    for e in probes.monitor_errors():
        ctx.inconclusive_because("monitor error: " + e[:600])
    ctx.require("oracle[time_shift_values]", 300, "time_shift value/zero-fill oracle")
