"""C07 - Phase arithmetic keeps two-double precision for every operand kind."""

import math
import operator
from fractions import Fraction as F

import numpy as np
import astropy.units as u
from astropy.coordinates import Angle
import pulsarbat as pb
from pulsarbat import Phase

from .. import exact, gen, probes

from ..replay import wl_R
from ..core import ValidInputRefused

RULE = ("counts 0..+-2^52 by magnitude decade x fractions {uniform, +-1/2, +-1/4, tiny (1e-300..1e-17), unnormalised (n, 7.3)} x operand kind "
        "{int, float, np.float64, np.float32, np.int64, 0-d array, n-d array, Quantity[cycle], Quantity[dimensionless/percent], Phase} x "
        "both operand orders x real/imaginary, for construction (one and two numbers), + - neg pos abs, * / by dimensionless factors "
        "{2,3,1/2,1/3,random,+-1e3,1j}, // % divmod by cycle Quantities and Phases, in-place operators and out= with Phase targets (incl. targets of the other real/imaginary character), sin/cos/exp(i p). Every Phase.__new__ and "
        "Phase.__array_ufunc__ call is compared elementwise with exact rational arithmetic on the operands (fractions.Fraction of the "
        "two-double parts). Non-trivial = an elementwise comparison with |exact count| <= 2^52; distinct = (op, operand kind, order, "
        "count decade, fraction kind, real/imag).")
ASSUMPTIONS = [
    "bound 2^-52 cycles absolute whenever the exact result has |count| <= 2^52 (results beyond are only required to be Phases)",
    "operands in degrees/radians are converted by astropy in float64 first; the oracle allows 4*2^-53*|value| for that conversion",
    "a plain number as divisor of // % divmod raises astropy's unit error (dimensionless vs cycle): not demanded",
]
BUDGET = {"quick": 100, "thorough": 900}
TWO52 = F(2 ** 52)
TOL = F(1, 2 ** 52)

ARITH = {np.add: "add", np.subtract: "subtract", np.multiply: "multiply", np.divide: "divide", np.true_divide: "divide",
         np.negative: "negative", np.positive: "positive", np.absolute: "absolute", np.fabs: "absolute",
         np.floor_divide: "floor_divide", np.remainder: "remainder", np.divmod: "divmod"}


def frs(x):
    """Flat list of exact values of a real numeric operand (array-like), or None."""
    try:
        a = np.asarray(x)
        if a.dtype.kind not in "fiub":
            return None
        return [F(int(v)) if a.dtype.kind in "iub" else F(float(v)) for v in a.ravel()], a.shape
    except Exception:
        return None


def operand_value(x, as_phase):
    """(values, shape, imaginary, slack) of an operand in cycles (as_phase) or as a dimensionless factor."""
    if isinstance(x, Phase):
        vals, imag = exact.phase_fraction(x)
        return vals, x.shape, imag, F(0)
    if isinstance(x, u.Quantity):
        unit = x.unit
        if as_phase:
            if unit == u.cycle:
                r = frs(x.value)
                slack = F(0)
            elif unit.is_equivalent(u.cycle):
                r = frs(x.to_value(u.cycle))
                slack = None
            else:
                return None
        else:
            if unit == u.dimensionless_unscaled:
                r = frs(x.value)
                slack = F(0)
            elif unit.is_equivalent(u.dimensionless_unscaled):
                r = frs(x.to_value(u.dimensionless_unscaled))
                slack = None
            else:
                return None
        if r is None:
            return None
        if slack is None:
            slack = max([abs(v) for v in r[0]] + [F(0)]) * 4 * F(1, 2 ** 53)
        return r[0], r[1], False, slack
    a = np.asarray(x)
    if a.dtype.kind == "c":
        if np.all(a.real == 0):
            r = frs(a.imag)
            return (r[0], r[1], True, F(0)) if r else None
        if np.all(a.imag == 0):
            r = frs(a.real)
            return (r[0], r[1], False, F(0)) if r else None
        return None
    r = frs(x)
    if r is None:
        return None
    return r[0], r[1], False, F(0)


def bcast(vals, shape, out_shape):
    a = np.empty(len(vals), dtype=object)
    a[:] = vals
    return list(np.broadcast_to(a.reshape(shape), out_shape).ravel())


def check_phase_result(ctx, o, res, want, want_imag, out_shape, feats, slack=F(0), what="value"):
    """res must be a normalised Phase equal to want (list of Fractions) within 2^-52 (+slack)."""
    if not isinstance(res, Phase):
        ctx.violation(o, f"result is {type(res).__name__} ({res!r:.80}), not a Phase: precision silently degraded to one double",
                      None, dict(feats, what="degraded"))
        return
    v = np.asarray(res.view(np.ndarray))
    ints, fracs = np.atleast_1d(v["int"]).ravel(), np.atleast_1d(v["frac"]).ravel()
    if tuple(res.shape) != tuple(out_shape):
        ctx.violation(o, f"result shape {res.shape}, expected {tuple(out_shape)}", None, dict(feats, what="shape"))
        return
    any_checked = False
    for k, w in enumerate(want):
        c, f = float(ints[k]), float(fracs[k])
        if abs(w) > TWO52 + 1:
            continue
        any_checked = True
        if not (math.isfinite(c) and math.isfinite(f)):
            ctx.violation(o, f"element {k}: non-finite parts ({c}, {f})", None, dict(feats, what="nonfinite"))
            return
        if c != math.floor(c) or abs(f) > 0.5:
            ctx.violation(o, f"element {k}: result ({c!r}, {f!r}) is not normalised (integer count, |frac| <= 1/2)", None,
                          dict(feats, what="unnormalised"))
            return
        got = F(c) + F(f)
        err = abs(got - w)
        ctx.stat_max("err_over_2^-52", float(err / TOL) if slack == 0 else 0.0)
        if err > TOL + slack:
            ctx.violation(o, f"element {k}: result ({c!r}, {f!r}) = {float(got)!r}, exact value {float(w)!r}: error {float(err):.3e} cycles "
                             f"= {float(err / TOL):.3g} x 2^-52", {"exact": w}, dict(feats, what=what))
            return
    if bool(getattr(res, "imaginary", False)) != bool(want_imag) and any(w != 0 for w in want):
        ctx.violation(o, f"result imaginary flag {getattr(res, 'imaginary', None)}, expected {want_imag}", None, dict(feats, what="imag_flag"))
    if any_checked:
        ctx.count("nontrivial[phase]")


class PhaseMonitor:
    def __init__(self, ctx):
        self.ctx = ctx

    def install(self):
        probes.attach(Phase, "__new__", self, "Phase.__new__")
        probes.attach(Phase, "__array_ufunc__", self, "Phase.__array_ufunc__")
        return self

    def pre(self, point, args, kwargs):
        if point.name == "__array_ufunc__" and kwargs.get("out") is not None:
            # in-place forms overwrite an operand: keep copies of the Phase operands
            return [i.copy() if isinstance(i, Phase) else i for i in args[3:]]
        return None

    def post(self, point, args, kwargs, tok, res, exc):
        ctx = self.ctx
        if point.name == "__new__":
            self.post_new(args, kwargs, res, exc)
            return
        self_, fn, method = args[0], args[1], args[2]
        inputs = tuple(tok) if tok is not None else args[3:]
        if tok is not None:
            self_ = next((t for t, a in zip(tok, args[3:]) if a is args[0]), self_)
        name = ARITH.get(fn)
        if name is None or method != "__call__":
            return
        out_kw = kwargs.get("out")
        if out_kw is not None:
            # out= / in-place operators: judged when the single target is a Phase (the returned object must be that target)
            if name in ("floor_divide", "divmod"):
                # quotient into a caller-provided plain array (and, for divmod, the remainder into a Phase or nothing)
                want_n = 1 if name == "floor_divide" else 2
                if not (isinstance(out_kw, tuple) and len(out_kw) == want_n and isinstance(out_kw[0], np.ndarray)
                        and not isinstance(out_kw[0], u.Quantity)):
                    return
                if exc is None and res is not NotImplemented:
                    got0 = res if name == "floor_divide" else (res[0] if isinstance(res, tuple) else None)
                    if got0 is not out_kw[0]:
                        ctx.violation("phase_" + name, "the quotient's out= array was not the object returned", None,
                                      {"what": "out_identity", "op": name})
                        return
            else:
                if not (isinstance(out_kw, tuple) and len(out_kw) == 1 and isinstance(out_kw[0], Phase)):
                    return
                if exc is None and res is not NotImplemented and res is not out_kw[0]:
                    ctx.violation("phase_" + name, "out= target was not returned", None, {"what": "out_identity", "op": name})
                    return
        ctx.count("ufunc_events")
        o = "phase_" + name
        kinds = tuple(type(i).__name__ for i in inputs)
        feats = {"op": name, "kinds": "/".join(kinds), "self_index": next((i for i, v in enumerate(inputs) if v is self_), -1)}
        if name in ("add", "subtract"):
            ops = [operand_value(i, True) for i in inputs]
        elif name in ("multiply", "divide"):
            ops = [operand_value(i, isinstance(i, Phase)) for i in inputs]
            if sum(isinstance(i, Phase) for i in inputs) != 1 or (name == "divide" and not isinstance(inputs[0], Phase)):
                return          # Phase*Phase, x/Phase: not a Phase-valued operation
        elif name in ("floor_divide", "remainder", "divmod"):
            ops = [operand_value(i, True) for i in inputs]
            if not isinstance(inputs[1], (u.Quantity,)):
                return          # plain-number divisor: astropy's dimensionless-vs-cycle rule applies
        else:
            ops = [operand_value(inputs[0], True)]
        if any(v is None for v in ops):
            return
        if name in ("add", "subtract") and ops[0][2] != ops[1][2]:
            return              # real +- imaginary is not representable: raising is the correct outcome
        if exc is not None or res is NotImplemented:
            # a NotImplemented from this operand lets NumPy try the other operand; only a raise is final here
            if exc is not None:
                ctx.unexpected_exception(o, exc, f"{name}({', '.join(kinds)})", dict(feats, what="raised"))
            return
        try:
            out_shape = np.broadcast_shapes(*[v[1] for v in ops])
        except ValueError:
            return
        vals = [bcast(v[0], v[1], out_shape) for v in ops]
        imags = [v[2] for v in ops]
        slack = sum((v[3] for v in ops), F(0))
        ctx.count(f"oracle[{o}]")
        if name in ("add", "subtract"):
            if imags[0] != imags[1]:
                return
            want = [a + b if name == "add" else a - b for a, b in zip(*vals)]
            check_phase_result(ctx, o, res, want, imags[0], out_shape, feats, slack)
        elif name == "multiply":
            want = [a * b for a, b in zip(*vals)]
            # i*i = -1
            if imags[0] and imags[1]:
                want = [-w for w in want]
            sl = slack * max([abs(x) for x in vals[0] + vals[1]] + [F(1)])
            check_phase_result(ctx, o, res, want, imags[0] ^ imags[1], out_shape, feats, sl)
        elif name == "divide":
            if any(b == 0 for b in vals[1]):
                return
            want = [a / b for a, b in zip(*vals)]
            # (i a) / (i b) = a / b ;  a / (i b) = -i a / b
            if imags[1] and not imags[0]:
                want = [-w for w in want]
            check_phase_result(ctx, o, res, want, imags[0] ^ imags[1], out_shape, feats, slack)
        elif name in ("negative", "positive", "absolute"):
            want = [(-a if name == "negative" else abs(a) if name == "absolute" else a) for a in vals[0]]
            check_phase_result(ctx, o, res, want, imags[0] and name != "absolute", out_shape, feats)
        else:
            if imags[0] or imags[1] or any(d == 0 for d in vals[1]):
                return
            qs = [math.floor(a / d) for a, d in zip(*vals)]
            rs = [a - q * d for a, d, q in zip(vals[0], vals[1], qs)]
            if name == "floor_divide":
                quot, rem = res, None
            elif name == "remainder":
                quot, rem = None, res
            else:
                quot, rem = res
            big = any(abs(a) > TWO52 or abs(q * d) > TWO52 for a, d, q in zip(vals[0], vals[1], qs))
            if big:
                return
            # near an exact multiple the quotient may legitimately be off by one with a remainder off by one divisor,
            # as long as q*d + r = p holds to 2^-52 and r lies in [0, d) (resp. (d, 0]) up to 2^-52
            if quot is not None:
                qv = np.atleast_1d(np.asarray(quot.value if isinstance(quot, u.Quantity) else quot, dtype=np.float64)).ravel()
                if isinstance(quot, u.Quantity) and quot.unit != u.dimensionless_unscaled:
                    ctx.violation(o, f"quotient has unit {quot.unit}", None, dict(feats, what="quot_unit"))
                    return
                for k, (q_exact, a, d) in enumerate(zip(qs, vals[0], vals[1])):
                    if qv[k] != math.floor(qv[k]):
                        ctx.violation(o, f"element {k}: quotient {qv[k]!r} is not an integer", None, dict(feats, what="quot_nonint"))
                        return
                    if int(qv[k]) != q_exact:
                        # allowed only if a is within 2^-52 of a multiple boundary
                        r_alt = a - int(qv[k]) * d
                        lo, hi = (F(0), d) if d > 0 else (d, F(0))
                        if not (lo - TOL - slack <= r_alt <= hi + TOL + slack) or abs(int(qv[k]) - q_exact) > 1:
                            ctx.violation(o, f"element {k}: floor quotient {int(qv[k])}, exact floor(p/d) = {q_exact} (p={float(a)!r}, d={float(d)!r})",
                                          None, dict(feats, what="quotient"))
                            return
                ctx.count("nontrivial[phase]")
            if rem is not None:
                if quot is not None:
                    qv_i = [int(v) for v in qv]
                else:
                    qv_i = None
                if not isinstance(rem, Phase):
                    ctx.violation(o, f"remainder is {type(rem).__name__}, not a Phase", None, dict(feats, what="degraded"))
                    return
                rv, _ = exact.phase_fraction(rem)
                for k, (a, d, q_exact, r_exact) in enumerate(zip(vals[0], vals[1], qs, rs)):
                    q_used = qv_i[k] if qv_i is not None else None
                    cand = [a - q_ * d for q_ in ({q_used} if q_used is not None else {q_exact - 1, q_exact, q_exact + 1})]
                    if not any(abs(rv[k] - c) <= TOL + slack for c in cand):
                        ctx.violation(o, f"element {k}: remainder {float(rv[k])!r}, exact p - q*d = {float(r_exact)!r} "
                                         f"(p={float(a)!r}, d={float(d)!r}, q={q_exact}): q*d + r != p to 2^-52", None,
                                      dict(feats, what="remainder"))
                        return
                    lo, hi = (F(0), d) if d > 0 else (d, F(0))
                    if not (lo - TOL - slack <= rv[k] <= hi + TOL + slack):
                        ctx.violation(o, f"element {k}: remainder {float(rv[k])!r} outside [{float(lo)}, {float(hi)}] (p={float(a)!r}, d={float(d)!r})",
                                      None, dict(feats, what="remainder_range"))
                        return
                ctx.count("nontrivial[phase]")

    def post_new(self, args, kwargs, res, exc):
        ctx = self.ctx
        o = "phase_new"
        p1 = args[1] if len(args) > 1 else kwargs.get("phase1")
        p2 = args[2] if len(args) > 2 else kwargs.get("phase2")
        if isinstance(p1, (str, bytes, tuple)) or isinstance(p2, (str, bytes, tuple)):
            return      # strings are C15's; tuples keep astropy's Angle semantics ((d, m, s), refused in this astropy)
        a = operand_value(p1, True)
        b = operand_value(p2, True) if p2 is not None else ([F(0)], (), None, F(0))
        if a is None or b is None:
            return
        feats = {"op": "new", "kinds": f"{type(p1).__name__}/{type(p2).__name__}"}
        if b[2] is None:
            b = (b[0], b[1], a[2], b[3])
        if exc is not None:
            if a[2] == b[2]:
                ctx.unexpected_exception(o, exc, f"Phase({type(p1).__name__}, {type(p2).__name__})", dict(feats, what="raised"))
            return
        if a[2] != b[2]:
            return
        ctx.count("oracle[phase_new]")
        try:
            out_shape = np.broadcast_shapes(a[1], b[1])
        except ValueError:
            return
        want = [x + y for x, y in zip(bcast(a[0], a[1], out_shape), bcast(b[0], b[1], out_shape))]
        check_phase_result(ctx, o, res, want, a[2], out_shape, feats, a[3] + b[3])


# ------------------------------------------------------------------------------------------------
COUNT_DECADES = [0, 1, 3, 6, 9, 12, 15, "2^52"]
FRAC_KINDS = ["uniform", "half", "quarter", "tiny", "unnorm", "zero"]
OPERANDS = ["int", "float", "np64", "np32", "npint", "arr0", "arrn", "q_cycle", "q_one", "phase", "q_percent", "q_deg", "arrb", "list", "tuple"]


def rand_count(rng, dec):
    if dec == "2^52":
        return float(2 ** 52 - int(rng.integers(0, 1000))) * float(gen.pick(rng, [1, -1]))
    if dec == 0:
        return float(rng.integers(-3, 4))
    return float(int(10 ** rng.uniform(dec - 1, dec)) * int(gen.pick(rng, [1, -1])))


def rand_frac(rng, kind):
    if kind == "uniform":
        return float(rng.uniform(-0.5, 0.5))
    if kind == "half":
        return float(gen.pick(rng, [0.5, -0.5]))
    if kind == "quarter":
        return float(gen.pick(rng, [0.25, -0.25, 0.125]))
    if kind == "tiny":
        return float(10.0 ** rng.uniform(-300, -17) * gen.pick(rng, [1, -1]))
    if kind == "unnorm":
        return float(rng.uniform(-9, 9))
    return 0.0


def make_phase(rng, dec, fk, shape=(), imaginary=False):
    n = int(np.prod(shape)) if shape else 1
    c = np.array([rand_count(rng, dec) for _ in range(n)]).reshape(shape)
    f = np.array([rand_frac(rng, fk) for _ in range(n)]).reshape(shape)
    with probes.quiet():
        try:
            from .C15 import as_view
            p = as_view(rng, c, f, Phase, imaginary)
        except Exception as exc:
            raise ValidInputRefused("phase_new", f"Phase({'imaginary' if imaginary else 'real'} count {c!r:.80}, fraction {f!r:.80}) raised "
                                                 f"{type(exc).__name__}: {exc}", {"imaginary": imaginary})
    return p


def make_operand(rng, kind, shape, small=True):
    mag = float(gen.pick(rng, [2, 3, 0.5, 1 / 3, -1e3, 1e3, rng.uniform(-10, 10), 7, 0.1]))
    if kind == "int":
        return int(gen.pick(rng, [2, 3, -5, 7, 1000]))
    if kind == "float":
        return mag
    if kind == "np64":
        return np.float64(mag)
    if kind == "np32":
        return np.float32(mag)
    if kind == "npint":
        return np.int64(gen.pick(rng, [2, 3, -4, 1000]))
    if kind == "arr0":
        return np.array(mag)
    if kind == "arrn":
        return rng.uniform(-5, 5, size=shape if shape else (3,)) + 6
    if kind in ("list", "tuple"):
        # a plain Python sequence of numbers is array-like too
        v = [float(x) for x in (rng.uniform(-5, 5, size=(int(np.prod(shape)) if shape else 2)) + 6)]
        if shape and len(shape) > 1:
            v = np.asarray(v).reshape(shape).tolist()
        return v if kind == "list" else (tuple(map(tuple, v)) if shape and len(shape) > 1 else tuple(v))
    if kind == "arrb":
        # an array that broadcasts the phase to a larger shape: a column against a row, a vector against a length-1 / scalar phase
        shp = {(): (4,), (1,): (4,), (3,): (2, 1), (2, 2): (3, 1, 1)}.get(tuple(shape), (2,) + (1,) * len(shape))
        return rng.uniform(-5, 5, size=shp) + 6
    if kind == "q_cycle":
        return mag * u.cycle
    if kind == "q_one":
        return mag * u.one
    if kind == "q_percent":
        return mag * 100 * u.percent
    if kind == "q_deg":
        return mag * 360 * u.deg
    if kind == "phase":
        return make_phase(rng, gen.pick(rng, [0, 1, 3]), gen.pick(rng, FRAC_KINDS), shape)
    raise ValueError(kind)


def wl_arith(ctx, idx, rng):
    dec = COUNT_DECADES[idx % len(COUNT_DECADES)]
    fk = FRAC_KINDS[(idx // len(COUNT_DECADES)) % len(FRAC_KINDS)]
    ok_ = OPERANDS[(idx // (len(COUNT_DECADES) * len(FRAC_KINDS))) % len(OPERANDS)]
    opname = ["add", "sub", "mul", "div", "neg", "abs", "pos", "radd", "rsub", "rmul"][int(rng.integers(10))]
    shape = gen.pick(rng, [(), (), (3,), (2, 2), (1,)])
    imaginary = rng.random() < 0.12
    p = make_phase(rng, dec, fk, shape, imaginary)
    x = make_operand(rng, ok_, shape)
    if imaginary and opname in ("mul", "rmul", "div") and rng.random() < 0.5:
        x = 1j * float(gen.pick(rng, [2, 0.5, 3]))
    elif opname in ("mul", "rmul") and rng.random() < 0.08:
        x = 1j
    desc = {"count_decade": dec, "frac_kind": fk, "operand": ok_, "op": opname, "shape": list(shape), "imag": imaginary,
            "phase": repr(p)[:120], "x": repr(x)[:80]}
    ctx.describe_case(desc)
    ctx.sample(desc, limit=8)
    o = "phase_arith"
    fns = {"add": lambda: p + x, "sub": lambda: p - x, "mul": lambda: p * x, "div": lambda: p / x, "neg": lambda: -p,
           "abs": lambda: abs(p), "pos": lambda: +p, "radd": lambda: x + p, "rsub": lambda: x - p, "rmul": lambda: x * p}
    # which combinations are in the property's domain
    cyc = ok_ in ("q_cycle", "q_deg", "phase")
    dimless = ok_ in ("int", "float", "np64", "np32", "npint", "arr0", "arrn", "arrb", "list", "tuple", "q_one", "q_percent") or isinstance(x, complex)
    if opname in ("add", "sub", "radd", "rsub"):
        valid = (cyc or ok_ in ("int", "float", "np64", "np32", "npint", "arr0", "arrn", "arrb", "list", "tuple")) and not isinstance(x, complex)
        if imaginary and not isinstance(x, Phase):
            valid = False
        if ok_ == "tuple":
            valid = False       # astropy's Angle refuses tuples (historic (d, m, s) meaning): either outcome is accepted for + and -
        if isinstance(x, Phase) and bool(x.imaginary) != imaginary:
            valid = False
    elif opname in ("mul", "rmul"):
        valid = dimless
    elif opname == "div":
        valid = dimless
    else:
        valid = True
    before = ctx.counters["ufunc_events"]
    res, exc = ctx.call(o, fns[opname], expect=None if valid else "any", where=f"{opname} {ok_}",
                        features={"op": opname, "operand": ok_})
    if valid and exc is None:
        if ctx.counters["ufunc_events"] == before and opname not in ("neg", "abs", "pos"):
            ctx.count("not_dispatched_to_phase")
        if not isinstance(res, Phase):
            ctx.violation(o, f"{opname} with {ok_} returned {type(res).__name__} ({res!r:.60}), not a Phase", None,
                          {"what": "degraded", "op": opname, "operand": ok_})
        ctx.bucket(opname, ok_, dec, fk, imaginary)


def wl_inplace(ctx, idx, rng):
    """In-place operators and out= with Phase targets (incl. results whose real/imaginary character differs from the target)."""
    dec = COUNT_DECADES[idx % (len(COUNT_DECADES) - 1)]
    fk = FRAC_KINDS[(idx // len(COUNT_DECADES)) % len(FRAC_KINDS)]
    shape = gen.pick(rng, [(), (3,)])
    imaginary = rng.random() < 0.3
    p = make_phase(rng, dec, fk, shape, imaginary)
    q = make_phase(rng, gen.pick(rng, [0, 1, 3]), "uniform", shape, imaginary)
    form = ["imul2", "imul_j", "idiv_j", "iadd", "isub", "abs_out_self", "neg_out_other", "mul_out_other", "idiv3",
            "imod_q", "imod_phase", "mod_out_divisor", "mod_out_view"][idx % 13]
    if form in ("imod_q", "imod_phase", "mod_out_divisor", "mod_out_view"):
        # remainders are defined for real phases; the divisor is a few cycles so that the quotient is exact in a double
        imaginary = False
        p = make_phase(rng, dec if dec in (0, 1, 3, 6) else 3, fk, shape, False)
        q = make_phase(rng, gen.pick(rng, [0, 1]), "uniform", shape, False)
        with probes.quiet():
            q = abs(q) + Phase(2.0, 0.25)
            vals0, im0 = exact.phase_fraction(p)
            qv, _ = exact.phase_fraction(q)
    with probes.quiet():
        vals0, im0 = exact.phase_fraction(p)
        qv, _ = exact.phase_fraction(q)
    tgt = make_phase(rng, 0, "zero", shape, not imaginary)      # a target of the *other* character

    def run():
        nonlocal p
        if form == "imul2":
            p *= 2.0
            return p, [v * 2 for v in vals0], im0
        if form == "imul_j":
            p *= 1j
            return p, [(-v if im0 else v) for v in vals0], not im0
        if form == "idiv_j":
            p /= 1j
            return p, [(v if im0 else -v) for v in vals0], not im0
        if form == "idiv3":
            p /= 3.0
            return p, [v / 3 for v in vals0], im0
        if form in ("imod_q", "imod_phase", "mod_out_divisor", "mod_out_view"):
            want_r = [a - math.floor(a / b) * b for a, b in zip(vals0, qv)]
            if form == "mod_out_view":
                # the target is another view object onto the dividend's own buffer (a block of a larger table)
                view = p[...] if not shape else p.reshape(-1).reshape(shape)
                r = np.remainder(p, q, out=view)
                return r, want_r, False
            if form == "imod_phase":
                p %= q
                return p, want_r, False
            if form == "imod_q":
                with probes.quiet():
                    qq = u.Quantity(q.cycle)
                    qv2 = [F(float(v)) for v in np.atleast_1d(qq.to_value(u.cycle)).ravel()]
                p %= qq
                return p, [a - math.floor(a / b) * b for a, b in zip(vals0, qv2)], False
            r = np.remainder(p, q, out=q)      # the divisor is the target
            return r, want_r, False
        if form == "iadd":
            p += q
            return p, [a + b for a, b in zip(vals0, qv)], im0
        if form == "isub":
            p -= q
            return p, [a - b for a, b in zip(vals0, qv)], im0
        if form == "abs_out_self":
            r = np.abs(p, out=p)
            return r, [abs(v) for v in vals0], False
        if form == "neg_out_other":
            r = np.negative(p, out=tgt)
            return r, [-v for v in vals0], im0
        r = np.multiply(p, 1j, out=tgt)
        return r, [(-v if im0 else v) for v in vals0], not im0
    desc = {"form": form, "count_decade": dec, "frac_kind": fk, "imag": imaginary}
    ctx.describe_case(desc)
    got, exc = ctx.call("phase_inplace", run, where=form)
    if exc is not None:
        return
    res, want, want_imag = got
    ctx.count("oracle[phase_inplace]")
    check_phase_result(ctx, "phase_inplace", res, want, want_imag, shape, {"op": form, "inplace": True})
    ctx.bucket("inplace", form, dec, fk, imaginary)


def wl_new(ctx, idx, rng):
    dec = COUNT_DECADES[idx % len(COUNT_DECADES)]
    fk = FRAC_KINDS[(idx // len(COUNT_DECADES)) % len(FRAC_KINDS)]
    c, f = rand_count(rng, dec), rand_frac(rng, fk)
    form = int(rng.integers(10))
    o = "phase_new"
    forms = [
        ("float", lambda: Phase(c + f if abs(c) < 2 ** 40 else c)),
        ("two_floats", lambda: Phase(c, f)),
        ("int_float", lambda: Phase(int(c), f)),
        ("frac_first", lambda: Phase(f, c)),
        ("np_scalars", lambda: Phase(np.float64(c), np.float64(f))),
        ("arrays", lambda: Phase(np.array([c, -c]), np.array([f, f]))),
        ("quantities", lambda: Phase(c * u.cycle, f * u.cycle)),
        ("phase_plus", lambda: Phase(Phase(np.array(c), np.array(0.0)), f)),
        ("float_phase", lambda: Phase(f, Phase(np.array(c), np.array(0.0)))),
        ("list", lambda: Phase([c, c + 1], [f, -f])),
    ]
    label, fn = forms[form]
    desc = {"form": label, "count": c, "frac": f}
    ctx.describe_case(desc)
    res, exc = ctx.call(o, fn, where=f"Phase({label})", features={"form": label})
    if exc is None:
        if not isinstance(res, Phase):
            ctx.violation(o, f"Phase({label}) returned {type(res).__name__}", None, {"what": "type"})
        ctx.bucket("new", label, dec, fk)


def wl_divmod(ctx, idx, rng):
    dec = COUNT_DECADES[idx % (len(COUNT_DECADES) - 1)]
    fk = FRAC_KINDS[(idx // len(COUNT_DECADES)) % len(FRAC_KINDS)]
    shape = gen.pick(rng, [(), (3,), (2, 2)])
    p = make_phase(rng, dec, fk, shape)
    dk = ["q_cycle", "q_cycle_arr", "phase_simple", "phase_two_part", "q_deg", "q_cycle_neg"][int(rng.integers(6))]
    dval = float(gen.pick(rng, [1.0, 0.5, 0.3, 2.0, 7.25, 1e3, rng.uniform(0.1, 5)]))
    if dk == "q_cycle":
        d = dval * u.cycle
    elif dk == "q_cycle_arr":
        d = (rng.uniform(0.2, 3, size=shape if shape else (2,))) * u.cycle
    elif dk == "phase_simple":
        with probes.quiet():
            d = Phase(np.array(float(int(dval) + 1)), np.array(0.25))
    elif dk == "phase_two_part":
        with probes.quiet():
            d = Phase(np.array(float(gen.pick(rng, [1, 3, 10, 1000]))), np.array(float(rng.uniform(-0.5, 0.5))))
    elif dk == "q_deg":
        d = dval * 360 * u.deg
    else:
        d = -dval * u.cycle
    which = ["floordiv", "mod", "divmod"][int(rng.integers(3))]
    fns = {"floordiv": lambda: p // d, "mod": lambda: p % d, "divmod": lambda: divmod(p, d)}
    # make near-multiples likely: sometimes set p to k*d -+ epsilon
    desc = {"count_decade": dec, "frac_kind": fk, "divisor": dk, "op": which, "phase": repr(p)[:100], "d": repr(d)[:80]}
    ctx.describe_case(desc)
    ctx.sample(desc, limit=3)
    res, exc = ctx.call("phase_divmod", fns[which], where=f"{which} by {dk}", features={"op": which, "divisor": dk})
    if exc is None:
        ctx.bucket(which, dk, dec, fk)


def wl_near_multiple(ctx, idx, rng):
    """Phases a hair below / above whole multiples of the divisor (closer than one double resolves)."""
    k = float(int(10 ** rng.uniform(0, 12)))
    eps = float(gen.pick(rng, [-1e-14, 1e-14, -1e-17, 1e-17, -1e-20, 0.0, -2.0 ** -53]))
    n = int(rng.integers(1, 4))
    with probes.quiet():
        c = np.array([k, k, 7.0][:n]) if n > 1 else np.array(k)
        f = np.array([eps, 0.25, 0.5][:n]) if n > 1 else np.array(eps)
        p = Phase(c, f)
    d = float(gen.pick(rng, [1.0, 1.0, 0.5, 2.0])) * u.cycle
    if rng.random() < 0.5:
        # a two-part Phase divisor (a spin period in cycles of another clock) and a dividend a hair below / above a whole multiple of it
        with probes.quiet():
            d = Phase(np.array(float(rng.integers(1, 2000))), np.array(float(rng.uniform(-0.5, 0.5))))
            if rng.random() < 0.3:
                d = -d
            kk = float(rng.integers(1, 10 ** 6))
            e_ = float(10 ** rng.uniform(-15, -9)) * float(gen.pick(rng, [-1, -1, 1, 0]))
            p = d * kk + Phase(0.0, e_)
            if n > 1:
                pi_, pf_ = float(np.asarray(p.view(np.ndarray))["int"]), float(np.asarray(p.view(np.ndarray))["frac"])
                p = Phase(np.array([pi_, pi_ + 3.0, 7.0][:n]), np.array([pf_, pf_, 0.25][:n]))
    which = ["floordiv", "mod", "divmod", "floordiv_out", "divmod_out"][idx % 5]
    shp_ = np.shape(p)

    def fd_out():
        q_ = np.full(shp_, -7.0)
        return np.floor_divide(p, d, out=q_)

    def dm_out():
        q_ = np.full(shp_, -7.0)
        with probes.quiet():
            r_ = Phase(np.zeros(shp_), np.zeros(shp_))
        return np.divmod(p, d, out=(q_, r_))
    fns = {"floordiv": lambda: p // d, "mod": lambda: p % d, "divmod": lambda: divmod(p, d), "floordiv_out": fd_out, "divmod_out": dm_out}
    ctx.describe_case({"k": k, "eps": eps, "n": n, "d": str(d), "op": which})
    res, exc = ctx.call("phase_divmod", fns[which], where=f"{which} near multiple")
    if exc is None:
        ctx.bucket("near_multiple", which, eps, n)


def wl_trig(ctx, idx, rng):
    dec = COUNT_DECADES[idx % len(COUNT_DECADES)]
    fk = gen.pick(rng, ["uniform", "quarter", "tiny", "half"])
    shape = gen.pick(rng, [(), (3,)])
    p = make_phase(rng, dec, fk, shape)
    o = "phase_trig"
    with probes.quiet():
        fr = np.asarray(p.view(np.ndarray)["frac"], dtype=np.float64)
    ang = 2 * np.pi * fr
    for name, fn, ref in (("sin", np.sin, np.sin(ang)), ("cos", np.cos, np.cos(ang))):
        res, exc = ctx.call(o, fn, p, where=name)
        if exc is None:
            ctx.count("oracle[trig]")
            v = np.asarray(getattr(res, "value", res), dtype=np.float64)
            if v.shape != ref.shape or np.any(np.abs(v - ref) > 8 * 2.0 ** -52):
                ctx.violation(o, f"np.{name}(phase) != {name}(2 pi frac): depends on the cycle count?", None, {"what": "trig", "fn": name})
            # invariance under whole cycles
            with probes.quiet():
                p2 = p + Phase(np.array(12345678.0), np.array(0.0))
            r2, e2 = ctx.call(o, fn, p2, where=name + " shifted")
            if e2 is None:
                v2 = np.asarray(getattr(r2, "value", r2), dtype=np.float64)
                if np.any(np.abs(v2 - v) > 8 * 2.0 ** -52):
                    ctx.violation(o, f"np.{name}(phase) changes when whole cycles are added", None, {"what": "trig_invariance", "fn": name})
    res, exc = ctx.call(o, lambda: np.exp(1j * p), where="exp(1j*p)")
    if exc is None:
        ctx.count("oracle[trig]")
        v = np.asarray(getattr(res, "value", res), dtype=np.complex128)
        ref = np.exp(1j * ang)
        if v.shape != ref.shape or np.any(np.abs(v - ref) > 8 * 2.0 ** -52):
            ctx.violation(o, "np.exp(1j*phase) != exp(2 pi i frac)", None, {"what": "exp"})
    ctx.bucket("trig", dec, fk, shape)
    ctx.describe_case({"count_decade": dec, "frac_kind": fk})


def install_universal(ctx):
    PhaseMonitor(ctx).install()
    return probes.detach_all


def workloads(ctx):
    q = ctx.tier == "quick"
    base = len(COUNT_DECADES) * len(FRAC_KINDS) * len(OPERANDS)
    return [("R", 1, wl_R), ("arith", base * (12 if q else 80), wl_arith), ("new", 480 * (3 if q else 20), wl_new),
            ("inplace", 378 * (3 if q else 20), wl_inplace),
            ("divmod", 2400 if q else 20000, wl_divmod), ("near_multiple", 1000 if q else 5000, wl_near_multiple),
            ("trig", 480 if q else 3200, wl_trig)]


def setup(ctx):
    PhaseMonitor(ctx).install()
    return probes.detach_all


def finalize(ctx):
    for e in probes.monitor_errors():
        ctx.inconclusive_because("monitor error: " + e[:600])
    for op in ("add", "subtract", "multiply", "divide", "negative", "absolute"):
        ctx.require(f"oracle[phase_{op}]", 50, f"{op} oracle")
    ctx.require("oracle[phase_new]", 300, "construction oracle")
    ctx.require("oracle[phase_inplace]", 200, "in-place / out= oracle")
    ctx.require("nontrivial[phase]", 1500, "elementwise comparisons within 2^52")
