"""C05 - coherent dedispersion applies the cold-plasma chirp and crops to valid times."""

import math
from fractions import Fraction as F

import numpy as np
import astropy.units as u
import dask.array as da
import pulsarbat as pb

from .. import exact, gen, probes, monitors, oracles, refdft
from .C06 import make_dm

from ..replay import wl_R

RULE = ("baseband / dual-polarisation signals: N in {16,100,243,1000,4095,4096,(thorough: 16384)} x nchan 1-5 x alignment x trailing dims x "
        "c8/c16 x NumPy/Dask x DM of either sign scaled so the band delay spans 0.2..1.5 N samples (DM 1e-6..1e3) x center 1e8..1e10 Hz x "
        "rate 1e4..4e8 Hz x f_ref {None,min,max,inside,30% outside}. Every chirp_function/chirp_from_signal result is compared bin by "
        "bin with exp(-2 pi i K DM f (1/f_ref-1/f)^2), phase evaluated in longdouble from exact differences and cross-checked with "
        "fractions.Fraction on sampled bins; every coherent_dedispersion result with IDFT(DFT(x) H_oracle)[start:stop] (independent "
        "DFT), exact-rational crop bounds and start time; supplied chirps and DM / -DM round trips. Non-trivial = value oracle ran on "
        "a non-empty output whose chirp spans > 0.5 cycle; distinct = (N, nchan, alignment, ref kind, DM sign, dtype, backend).")
ASSUMPTIONS = [
    "chirp tolerance 2^-22 + 2pi*2^-52*(8|phi| + 4 K|DM| f |1/ref-1/f| (1/ref+1/f)) + 2pi*|delay(f)|*(2 ulp(f) + rate*2^-51) "
    "(complex64 storage, float64 evaluation incl. cancellation, float64 frequency grid)",
    "band-edge delays within 1e-9 (+ evaluation bound) of a whole sample accept either crop",
    "band entirely above 0 Hz; reference frequency > 0",
]
BUDGET = {"quick": 120, "thorough": 1500}
LD = np.longdouble
K_LD = LD(10 ** 7) / LD(2410) * LD(10) ** 12


class _Inf:
    """Reference frequency at infinity (1/ref = 0)."""
    def __le__(self, other):
        return False

    def __float__(self):
        return float("inf")


INF = _Inf()


def ref_hz(q):
    """Exact reference frequency in Hz, or INF for an infinite one."""
    v = float(q.to_value(u.Hz))
    return INF if v == float("inf") else F(v)


def oracle_chirp(dmv, fc, ref, rate, N, check_ctx=None):
    """H (complex128, shape N) and per-bin tolerance for one channel, from exact inputs (Fractions)."""
    def ld(fr):
        """Fraction -> longdouble with full extended precision (hi + lo split)."""
        fr = F(fr)
        hi = float(fr)
        return LD(hi) + LD(float(fr - F(hi)))

    k = refdft.fftfreq_bins(N).astype(LD)
    fc_l, rate_l, dm_l = ld(fc), ld(rate), ld(dmv)
    off = k * rate_l / LD(N)
    f = fc_l + off
    if ref is INF:
        phi = K_LD * dm_l / f                   # K DM f (0 - 1/f)^2
        inv_ref = 0.0
    else:
        ref_l = ld(ref)
        delta = ld(F(fc) - F(ref)) + off        # f - ref: the exact rational difference first
        phi = K_LD * dm_l * delta * delta / (f * ref_l * ref_l)     # = K DM f (1/ref - 1/f)^2
        inv_ref = 1 / float(ref)
    frac = phi - np.floor(phi)
    H = (np.cos(2 * refdft._PI_LD * frac) - 1j * np.sin(2 * refdft._PI_LD * frac)).astype(np.complex128)
    phi_f = np.abs(phi).astype(np.float64)
    f_f = f.astype(np.float64)
    inv = np.abs(inv_ref - 1 / f_f)
    kd = float(K_LD) * abs(float(dmv))
    delay = kd * np.abs(1 / f_f ** 2 - inv_ref ** 2)
    tol = (2.0 ** -22 + 2 * np.pi * 2.0 ** -52 * (8 * phi_f + 4 * kd * f_f * inv * (inv_ref + 1 / f_f))
           + 2 * np.pi * delay * (2 * np.spacing(f_f) + float(rate) * 2.0 ** -51))
    # cross-check the longdouble phase with exact rational arithmetic on a few bins
    for j in sorted({0, 1, N // 2, N - 1, N // 3}):
        if j >= N:
            continue
        kk = int(refdft.fftfreq_bins(N)[j])
        fe = fc + F(kk) * rate / N
        pe = oracles.K_HZ * dmv / fe if ref is INF else oracles.chirp_phase_cycles(dmv, fe, ref)
        fe_frac = pe - math.floor(pe)
        d = abs(float(fe_frac) - float(frac[j]))
        d = min(d, 1 - d)
        if d > 1e-7 + 1e-15 * float(abs(pe)):
            raise RuntimeError(f"oracle self-check failed: longdouble phase {float(frac[j])} vs exact {float(fe_frac)} (|phi|={float(abs(pe))})")
    return H, tol, np.abs(phi).astype(np.float64)


class ChirpMonitor:
    """Postcondition of DispersionMeasure.chirp_function and chirp_from_signal."""

    def __init__(self, ctx):
        self.ctx = ctx

    def install(self):
        DMc = pb.transforms.dedispersion.DispersionMeasure
        probes.attach(DMc, "chirp_function", self, "DM.chirp_function")
        probes.attach(DMc, "chirp_from_signal", self, "DM.chirp_from_signal")
        return self

    def pre(self, point, args, kwargs):
        if point.label == "DM.chirp_from_signal" and isinstance(args[1], pb.BasebandSignal):
            return monitors.meta_of(args[1])
        return None

    def check(self, got, dmv, fc, ref, rate, N, feats, where):
        ctx = self.ctx
        o = "chirp"
        H, tol, phi = oracle_chirp(dmv, fc, ref, rate, N)
        ctx.count("oracle[chirp]")
        got = np.asarray(got)
        if got.shape != (N,):
            ctx.violation(o, f"{where}: chirp has shape {got.shape}, expected ({N},)", None, dict(feats, what="shape"))
            return
        if got.dtype != np.complex64:
            ctx.violation(o, f"{where}: chirp dtype {got.dtype}", None, dict(feats, what="dtype"))
        err = np.abs(got.astype(np.complex128) - H)
        ctx.stat_max("chirp_err_over_tol", float(np.max(err / tol)))
        mod = np.abs(np.abs(got.astype(np.complex128)) - 1)
        if np.any(mod > 2.0 ** -22):
            ctx.violation(o, f"{where}: |H| deviates from 1 by {mod.max():.3e}", None, dict(feats, what="modulus"))
        if np.any(err > tol):
            j = int(np.argmax(err / tol))
            ctx.violation(o, f"{where}: bin {j} of {N}: H = {got[j]!r}, cold-plasma law gives {H[j]!r} (|err| {err[j]:.3e} > tol {tol[j]:.3e}; "
                             f"|phase| {phi[j]:.6g} cycles; fc={float(fc)!r} ref={float(ref)!r} rate={float(rate)!r} DM={float(dmv)!r})",
                          None, dict(feats, what="phase", odd_N=bool(N % 2)))
        if phi.max() - phi.min() > 0.5:
            ctx.count("nontrivial[chirp]")

    def post(self, point, args, kwargs, m, res, exc):
        ctx = self.ctx
        if exc is not None:
            return
        dm = args[0]
        dmv = oracles.dm_value(dm)
        if point.label == "DM.chirp_function":
            names = ["N", "dt", "center_freq", "ref_freq", "use_dask"]
            a = dict(zip(names, args[1:]))
            a.update(kwargs)
            N = int(a["N"])
            dt = F(float(a["dt"].to_value(u.s)))
            fc, ref = exact.hz(a["center_freq"]), ref_hz(a["ref_freq"])
            use_dask = bool(a.get("use_dask", False))
            if use_dask != isinstance(res, da.Array):
                ctx.violation("chirp", f"chirp_function(use_dask={use_dask}) returned {type(res).__name__}", None, {"what": "container"})
            got = res.compute(scheduler="synchronous") if isinstance(res, da.Array) else res
            if N > 1 << 16 or N == 0 or ref <= 0:
                return
            self.check(got, dmv, fc, ref, 1 / dt, N, {"fn": "chirp_function", "dask": use_dask}, "chirp_function")
        elif m is not None:
            z = args[1]
            ref_q = kwargs.get("ref_freq")
            ref = m["fc"] if ref_q is None else ref_hz(ref_q)
            N, nch = m["len"], m["nchan"]
            want_shape = (N, nch) + (1,) * (len(m["shape"]) - 2)
            if tuple(res.shape) != want_shape:
                ctx.violation("chirp", f"chirp_from_signal shape {tuple(res.shape)}, expected {want_shape}", None, {"what": "shape"})
                return
            if m["dask"] != isinstance(res, da.Array):
                ctx.violation("chirp", "chirp_from_signal container differs from the signal's", None, {"what": "container"})
            if N == 0 or N > 1 << 16 or ref <= 0 or m["fmin"] <= 0:
                return
            got = res.compute(scheduler="synchronous") if isinstance(res, da.Array) else np.asarray(res)
            got = got.reshape(N, nch)
            labels = monitors.model_labels(m["fc"], m["bw"], m["align"], nch)
            rate_eff = 1 / F(float(z.dt.to_value(u.s)))
            for i in ([0, nch - 1] if nch > 2 and N > 4096 else range(nch)):
                self.check(got[:, i], dmv, labels[i], ref, rate_eff, N,
                           {"fn": "chirp_from_signal", "dask": m["dask"], "align": m["align"], "chan": i, "ref_default": ref_q is None},
                           f"chirp_from_signal channel {i}")


class CoherentMonitor:
    def __init__(self, ctx):
        self.ctx = ctx

    def install(self):
        probes.attach(pb.transforms.dedispersion, "coherent_dedispersion", self, "coherent_dedispersion")
        return self

    def pre(self, point, args, kwargs):
        z = args[0]
        if not isinstance(z, pb.BasebandSignal):
            return None
        return monitors.meta_of(z)

    def post(self, point, args, kwargs, m, out, exc):
        ctx = self.ctx
        o = "coherent"
        if m is None or exc is not None:
            return
        z, dm = args[0], args[1]
        ref_q = kwargs.get("ref_freq")
        ref = m["fc"] if ref_q is None else ref_hz(ref_q)
        N, nch = m["len"], m["nchan"]
        if m["fmin"] <= 0 or ref <= 0 or N == 0:
            return
        ctx.count("coherent_events")
        dmv = oracles.dm_value(dm)
        feats = {"cls": m["cls"].__name__, "nchan": nch, "align": m["align"], "ref_default": ref_q is None, "dm_negative": dmv < 0,
                 "dask": m["dask"], "chirp_given": kwargs.get("chirp") is not None, "odd_N": bool(N % 2)}
        if type(out) is not m["cls"]:
            ctx.violation(o, f"returned {type(out).__name__} for {m['cls'].__name__}", None, dict(feats, what="class"))
            return
        mo = monitors.meta_of(out)
        for k in ("rate", "fc", "bw", "align", "pol", "meta", "dask", "nchan"):
            if k in m and m[k] != mo.get(k):
                ctx.violation(o, f"coherent_dedispersion changed {k}: {m[k]!r} -> {mo.get(k)!r}", None, dict(feats, what="meta_" + k))
        if mo["shape"][1:] != m["shape"][1:]:
            ctx.violation(o, "sample shape changed", None, dict(feats, what="shape"))
            return
        zero_exact = False
        if ref_q is not None:
            for edge in (z.min_freq, z.max_freq):
                if ref_q.unit == edge.unit and ref_q.value == edge.value:
                    zero_exact = True
        start, stop, amb, delays = oracles.coherent_crop(dmv, m["fmax"], m["fmin"], None if ref is INF else ref, m["rate"], N, zero_exact)
        if amb:
            ctx.count("ambiguous[integer_edge_delay]")
            return
        b, e = oracles.kept_range(start, stop, N)
        want_len = e - b
        feats = dict(feats, beyond_length=bool(stop < 0))
        if len(out) != want_len:
            ctx.violation(o, f"returned {len(out)} samples; band-edge delays {float(delays[0]):.3f}/{float(delays[1]):.3f} samples give "
                             f"[{start}:{stop}] of {N} = {want_len} samples", {"dm": float(dmv)}, dict(feats, what="crop_len"))
            return
        if want_len == 0:
            ctx.count("empty_outputs")
            return
        if m["start"] is not None:
            got = exact.time_diff_s(out.start_time, m["start"]) if out.start_time is not None else None
            want = F(b) / m["rate"]
            if got is None or abs(got - want) > exact.time_tol(want, 2):
                ctx.violation(o, f"start_time advanced by {None if got is None else float(got * m['rate'])} samples, front crop is {b}",
                              None, dict(feats, what="start"))
        elif out.start_time is not None:
            ctx.violation(o, "acquired a start time", None, dict(feats, what="acquired"))
        if kwargs.get("chirp") is not None and not getattr(self, "judge_given_chirp", False):
            return    # value oracle for supplied chirps is the comparison with the internal-chirp run (workload)
        if N * int(np.prod(m["shape"][1:])) > 1 << 21:
            ctx.count("skipped_too_large")
            return
        x = gen.np_data(z)
        y = gen.np_data(out)
        if not np.all(np.isfinite(x)):
            return
        labels = monitors.model_labels(m["fc"], m["bw"], m["align"], nch)
        rate_eff = 1 / F(float(z.dt.to_value(u.s)))
        X = refdft.dft(x.astype(np.complex128), axis=0)
        tolH = np.zeros(nch)
        span = 0.0
        Hs = []
        for i in range(nch):
            H, tol, phi = oracle_chirp(dmv, labels[i], ref, rate_eff, N)
            Hs.append(H)
            tolH[i] = tol.max()
            span = max(span, float(phi.max() - phi.min()))
        Hm = np.stack(Hs, axis=1).reshape((N, nch) + (1,) * (x.ndim - 2))
        refy = refdft.dft(X * Hm, axis=0, inverse=True)[b:e]
        ctx.count("oracle[coherent_values]")
        E = int(np.prod(x.shape[2:])) if x.ndim > 2 else 1
        norm = refdft.l2(x.reshape(N, nch, E), axis=0)                  # (nch, E)
        vt = 2.0 ** -19 * (1 + math.log2(N + 1) / 8) if m["dtype"] == np.complex64 else 2.0 ** -40
        tol = (tolH[:, None] + vt) * norm + 1e-300
        err = np.abs(y.reshape(want_len, nch, E).astype(np.complex128) - refy.reshape(want_len, nch, E))
        l2err = np.sqrt(np.sum(err ** 2, axis=0))
        ctx.stat_max(f"coherent_l2err_over_tol[{np.dtype(m['dtype']).name}]", float(np.max(l2err / tol)))
        if np.any(l2err > tol):
            i, e_ = np.unravel_index(int(np.argmax(l2err / tol)), l2err.shape)
            ctx.violation(o, f"channel {i} element {e_}: output differs from IDFT(DFT(x)*H)[{b}:{e}] with the cold-plasma H: l2 error "
                             f"{l2err[i, e_]:.3e} > tol {tol[i, e_]:.3e} (= {l2err[i, e_] / (norm[i, e_] + 1e-300):.3e} ||x||_2); N={N} DM={float(dmv)!r} "
                             f"ref={float(ref)!r}", None, dict(feats, what="value"))
        if span > 0.5:
            ctx.count("nontrivial[coherent]")


NS = [16, 100, 243, 1000, 4095, 4096]


def wl_coherent(ctx, idx, rng):
    big = ctx.tier == "thorough"
    Ns = NS + ([16384, 2187] if big else [])
    N = Ns[idx % len(Ns)]
    nchan = int(rng.integers(1, 6)) if N <= 4096 else int(rng.integers(1, 3))
    align = ["bottom", "center", "top"][(idx // len(Ns)) % 3]
    rk = (idx // (len(Ns) * 3)) % 6
    clsname = gen.pick(rng, ["BasebandSignal", "BasebandSignal", "DualPolarizationSignal"])
    extra = gen.pick(rng, [(), (), (2,), (1, 2)]) if N <= 1000 else ()
    dtype = gen.pick(rng, [np.complex64, np.complex128])
    srhz = 10.0 ** rng.uniform(4, 8.6)
    rate = gen.pick(rng, [srhz * u.Hz, (srhz / 1e6) * u.MHz, (srhz / 1e3) * u.kHz])
    fchz = max(10.0 ** rng.uniform(8, 10), srhz * nchan * 2)
    fc = gen.pick(rng, [fchz * u.Hz, (fchz / 1e6) * u.MHz, (fchz / 1e9) * u.GHz])
    start = gen.rand_time(rng, p_none=0.25)
    use_dask = rng.random() < 0.2
    sig, desc = gen.make_signal(rng, clsname, N, nchan=nchan, extra=extra, dtype=dtype, rate=rate, fc=fc, align=align, start=start,
                                dask=use_dask)
    bw = srhz * nchan
    per_dm = 4149.377593360996e12 * abs((fchz - bw / 2) ** -2 - (fchz + bw / 2) ** -2) * srhz + 1e-300
    r = rng.random()
    target = rng.uniform(0.2, N * 0.6) if r < 0.85 else rng.uniform(N * 0.6, N * 1.5)
    if gen._side_rng(rng).random() < 0.06:
        # a tiny DM (a residual correction): the whole delay is a small fraction of a sample, which still costs one sample per side
        target = float(10.0 ** gen._side_rng(rng).uniform(-7.5, -2))
    dmval = float(target / per_dm) * gen.pick(rng, [1, 1, -1])
    dm = make_dm(rng, dmval)
    ref = [None, sig.min_freq, sig.max_freq, sig.center_freq + sig.chan_bw * float(rng.uniform(-nchan / 2, nchan / 2)),
           sig.center_freq * float(gen.pick(rng, [1.3, 0.7])), np.inf * gen.pick(rng, [u.MHz, u.Hz, u.GHz])][rk]
    if rk == 5:
        # delays relative to infinite frequency are absolute: choose the DM so that the delay at the bottom of the band is a
        # fraction of N samples (otherwise everything is cropped away)
        per_dm_inf = 4149.377593360996e12 * (fchz - bw / 2) ** -2 * srhz + 1e-300
        dmval = float(target / per_dm_inf) * gen.pick(rng, [1, 1, -1])
        dm = make_dm(rng, dmval)
    if ref is not None and rk != 5 and rng.random() < 0.5:
        ref = ref.to(gen.pick(rng, [u.Hz, u.MHz, u.GHz]))
    kw = {} if ref is None else {"ref_freq": ref}
    desc.update(N=N, dm=str(dm), ref=None if ref is None else str(ref), ref_kind=rk, band_delay_samples=float(target))
    ctx.describe_case(desc)
    ctx.sample(desc)
    before = ctx.counters["coherent_events"]
    out, exc = ctx.call("coherent", pb.coherent_dedispersion, sig, dm, expect="any", **kw)
    if exc is not None:
        if target < N * 0.45:
            ctx.unexpected_exception("coherent", exc, "coherent_dedispersion")
        else:
            ctx.count("degenerate[raised]")
        return
    if ctx.counters["coherent_events"] == before:
        ctx.inconclusive_because("coherent_dedispersion probe did not fire")
    if use_dask and len(out) and isinstance(out.data, da.Array):
        # a lazy result belongs to the DM it was requested with: the caller reuses (changes in place) its DM object before computing
        with probes.quiet():
            y_first = gen.np_data(out)
            dm_keep = dm.copy()
            dm *= 3.0
            y_late = gen.np_data(out)
            dm = dm_keep
        ctx.count("oracle[lazy_result_bound_to_call_time_dm]")
        if y_first.shape != y_late.shape or not np.array_equal(y_first, y_late, equal_nan=True):
            ctx.violation("coherent", "a lazy coherent_dedispersion result changed when the caller modified its DM object in place before computing",
                          None, {"what": "late_binding", "dask": True})
    if len(out):
        ctx.bucket(N, nchan, align, rk, dmval > 0, np.dtype(dtype).name, "dask" if use_dask else "np")
    sub = idx % 3
    if sub == 0:
        # supplied chirp == internal chirp (full-rank and squeezed 2-D forms)
        with probes.quiet():
            ch = dm.chirp_from_signal(sig, **kw)
        ch2 = ch.reshape(ch.shape[:2]) if rng.random() < 0.5 else ch
        out2, exc2 = ctx.call("coherent", pb.coherent_dedispersion, sig, dm, chirp=ch2, where="coherent_dedispersion(chirp=)", **kw)
        if exc2 is None:
            ctx.count("oracle[supplied_chirp]")
            with probes.quiet():
                a, b = gen.np_data(out), gen.np_data(out2)
            if a.shape != b.shape or (a.size and not np.allclose(a, b, rtol=0, atol=1e-6 * (np.abs(a).max() + 1e-300))):
                ctx.violation("coherent", "supplying the chirp returned by chirp_from_signal gives a different result than the internal one",
                              None, {"what": "supplied_chirp"})
            if not monitors.same_time(out.start_time, out2.start_time, 0):
                ctx.violation("coherent", "supplied chirp changed the start time", None, {"what": "supplied_chirp_start"})
        if isinstance(ch, np.ndarray) and ch.flags.writeable and N <= 4096:
            # the caller then windows / conjugates its chirp array in place; a later call with the internal chirp is judged as usual
            with probes.quiet():
                np.conjugate(ch, out=ch)
                ch *= 0.5
            ctx.count("history[chirp_modified_by_caller]")
            ctx.call("coherent", pb.coherent_dedispersion, sig, dm, where="coherent_dedispersion after the caller modified a chirp array", **kw)
    elif sub == 1 and N >= 100 and target < N * 0.15:
        # DM then -DM restores a compactly supported input at the same absolute times
        with probes.quiet():
            x = gen.np_data(sig).copy()
        # margin: the chirp filter has (sinc-like) tails beyond the group delay, which wrap around circularly; each pass is
        # judged exactly by the monitor, so this end-to-end check only has to separate "restored" (observed <= 0.13) from
        # "not restored" (a wrong sign / reference / unit gives >= 1)
        w = 2 * int(math.ceil(target)) + 16
        x[:w] = 0
        x[N - w:] = 0
        comp = type(sig).like(sig, x)
        y1, e1 = ctx.call("coherent", pb.coherent_dedispersion, comp, dm, where="DM", **kw)
        if e1 is None and len(y1):
            y2, e2 = ctx.call("coherent", pb.coherent_dedispersion, y1, -dm, where="-DM", **kw)
            if e2 is None and len(y2) and comp.start_time is not None:
                ctx.count("oracle[reversibility]")
                with probes.quiet():
                    k0 = exact.time_diff_s(y2.start_time, comp.start_time) * exact.hz(comp.sample_rate)
                    k0 = int(round(k0))
                    a = gen.np_data(y2)
                    b = x[k0:k0 + len(a)]
                    nrm = np.sqrt(np.sum(np.abs(x) ** 2)) + 1e-300
                if a.shape != b.shape or np.sqrt(np.sum(np.abs(a - b) ** 2)) > 0.35 * nrm:
                    ctx.violation("coherent", f"DM followed by -DM does not restore the compact input (rel l2 err "
                                              f"{np.sqrt(np.sum(np.abs(a - b) ** 2)) / nrm if a.shape == b.shape else 'shape'})", None,
                                  {"what": "reversibility"})
    if rng.random() < 0.04:
        other, _ = gen.make_signal(rng, gen.pick(rng, ["Signal", "RadioSignal", "IntensitySignal"]), 8)
        ctx.call("coherent", pb.coherent_dedispersion, other, dm, expect=TypeError, where="coherent_dedispersion(non-baseband)")


def wl_chirp_fn(ctx, idx, rng):
    """chirp_function called directly (all argument forms)."""
    N = int(gen.pick(rng, [1, 2, 15, 16, 255, 1000, 4096]))
    srhz = 10.0 ** rng.uniform(4, 8.6)
    fchz = max(10.0 ** rng.uniform(8, 10), srhz * 2)
    refhz = fchz * float(gen.pick(rng, [1.0, 1 + 0.4 * srhz / fchz, 1 - 0.4 * srhz / fchz, 1.3, 0.7]))
    per_dm = 4149.377593360996e12 * abs((fchz - srhz / 2) ** -2 - (fchz + srhz / 2) ** -2) * srhz + 1e-300
    dmval = float(rng.uniform(0.2, N * 1.2) / per_dm) * gen.pick(rng, [1, -1])
    dm = make_dm(rng, dmval)
    dt = (1 / (srhz * u.Hz)).to(gen.pick(rng, [u.s, u.us, u.ns]))
    use_dask = rng.random() < 0.3
    fcq = (fchz * u.Hz).to(gen.pick(rng, [u.Hz, u.MHz, u.GHz]))
    refq = (refhz * u.Hz).to(gen.pick(rng, [u.Hz, u.MHz, u.GHz]))
    desc = {"N": N, "dt": str(dt), "fc": str(fcq), "ref": str(refq), "dm": str(dm), "dask": use_dask}
    ctx.describe_case(desc)
    r1, e1 = ctx.call("chirp", dm.chirp_function, N, dt, fcq, refq, use_dask)
    if e1 is None and isinstance(r1, np.ndarray) and r1.flags.writeable and rng.random() < 0.6:
        # the caller goes on to modify the chirp it was given (windowing, conjugating in place); the same request made again -
        # directly, with an equal DM object, or through a dedispersion call - must still give the cold-plasma chirp
        with probes.quiet():
            np.conjugate(r1, out=r1)
            r1 *= 0.5
        ctx.count("history[chirp_modified_by_caller]")
        dm2 = pb.DispersionMeasure(dm.value * dm.unit) if rng.random() < 0.5 else dm
        ctx.call("chirp", dm2.chirp_function, N, dt, fcq, refq, False, where="chirp_function again after the caller modified the first result")
    ctx.bucket("chirp_fn", N, use_dask, dmval > 0, str(dm.unit))


def install_universal(ctx):
    ChirpMonitor(ctx).install()
    CoherentMonitor(ctx).install()
    return probes.detach_all


def workloads(ctx):
    q = ctx.tier == "quick"
    return [("R", 1, wl_R), ("coherent", 1440 if q else 14400, wl_coherent), ("chirp_fn", 600 if q else 6000, wl_chirp_fn)]


def setup(ctx):
    ChirpMonitor(ctx).install()
    CoherentMonitor(ctx).install()
    return probes.detach_all


def finalize(ctx):
    for e in probes.monitor_errors():
        ctx.inconclusive_because("monitor error: " + e[:600])
    ctx.require("oracle[chirp]", 300, "chirp phase oracle")
    ctx.require("nontrivial[coherent]", 100, "coherent dedispersion value oracle")
    ctx.require("oracle[supplied_chirp]", 30, "supplied chirp comparison")
    ctx.require("oracle[reversibility]", 5, "reversibility check")
