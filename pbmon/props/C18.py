"""C18 - fast FFT lengths are the nearest 7-smooth numbers for every N."""

import bisect
import signal
import threading
from fractions import Fraction as F

import numpy as np
import astropy.units as u
import dask.array as da
import pulsarbat as pb

from .. import exact, gen, probes, monitors, oracles

RULE = ("postcondition on every next_fast_len / prev_fast_len call against an independently generated sorted table of all 7-smooth "
        "integers below 2^64: (a) exhaustive 0 <= N <= 2^17 (quick) / 2^22 (thorough), blocks visited in shuffled order and partly "
        "repeated so the lru_cache is hit cold and warm; (b) for 7-smooth s < 2^62 (a seed-dependent 1/8 of them in quick, all in "
        "thorough): s-1, s, s+1 and a random interior point of the following gap, plus s-2..s+2 around every prime power x small factor; (c) fast_len on signals of length 0..5000 and a few "
        "near 1e5..1e6 (all classes, NumPy/Dask): retained data bitwise equal to z.data[:m], timestamps untouched. Non-trivial = "
        "N > 10 (beyond the shortcut); distinct = distinct work units (blocks of 4096 consecutive N, groups of 16 smooth numbers with their neighbours, groups of 8 special numbers, fast_len (class, length) pairs).")
ASSUMPTIONS = ["the reference table is produced by a four-nested-loop enumeration of 2^a 3^b 5^c 7^d (pbmon/oracles.py), independent of utils.py"]
BUDGET = {"quick": 120, "thorough": 1500}
JOBS = {"quick": 4, "thorough": 16}
LEVEL = "exploration"
# reach pass: one case of the exhaustive / smooth workloads is thousands of calls of pure-Python loops (slow under line monitoring)
REACH_CASES = {"exhaustive": 2, "smooth": 6, "special": 6}


CALL_DEADLINE_S = 20.0


class CallTimeout(Exception):
    """The library call did not return within CALL_DEADLINE_S seconds."""


def _on_alarm(signum, frame):
    raise CallTimeout(f"no result within {CALL_DEADLINE_S:.0f} s")


class FastLenMonitor:
    def __init__(self, ctx):
        self.ctx = ctx
        self.seen = set()

    def install(self):
        probes.attach(pb.utils, "next_fast_len", self, "next_fast_len")
        probes.attach(pb.utils, "prev_fast_len", self, "prev_fast_len")
        return self

    def pre(self, point, args, kwargs):
        # a pure integer function: no answer within CALL_DEADLINE_S is reported (CallTimeout raised inside the call), not waited for
        if threading.current_thread() is threading.main_thread():
            signal.setitimer(signal.ITIMER_REAL, CALL_DEADLINE_S)
        return None

    def post(self, point, args, kwargs, tok, res, exc):
        if threading.current_thread() is threading.main_thread():
            signal.setitimer(signal.ITIMER_REAL, 0)
        ctx = self.ctx
        o = point.label
        N = args[0] if args else kwargs.get("N")
        if exc is not None:
            if isinstance(N, (int, np.integer)) and N >= 0:
                ctx.unexpected_exception(o, exc, f"{o}({N})")
            return
        if not isinstance(N, (int, np.integer)) or N < 0 or N >= 2 ** 63:
            return
        N = int(N)
        ctx.count(f"oracle[{o}]")
        want = oracles.next_smooth(N) if o == "next_fast_len" else oracles.prev_smooth(N)
        if N > 10:
            ctx.count("nontrivial[fast_len_fn]")
        if res != want or isinstance(res, bool):
            ctx.violation(o, f"{o}({N}) = {res!r}, the {'smallest 7-smooth number >=' if o == 'next_fast_len' else 'largest 7-smooth number <='} "
                             f"N is {want}", {"N": N}, {"what": "value", "fn": o, "big": N > 2 ** 32})


def wl_exhaustive(ctx, idx, rng):
    """Block idx covers N in [idx*4096, (idx+1)*4096)."""
    lo = idx * 4096
    Ns = np.arange(lo, lo + 4096)
    rng.shuffle(Ns)
    nf, pf = pb.utils.next_fast_len, pb.utils.prev_fast_len
    for N in Ns:
        N = int(N)
        # the two functions in either order, and one of them alone (anything one call leaves behind must not steer the other)
        order = int(rng.integers(4))
        if order == 0:
            nf(N), pf(N)
        elif order == 1:
            pf(N), nf(N)
        elif order == 2:
            pf(N), nf(N + 1 if N % 3 else max(N - 1, 0))
        else:
            nf(N), pf(N + 1)
    for N in Ns[:256]:      # warm-cache repeats
        nf(int(N))
        pf(int(N))
    ctx.describe_case({"block": [lo, lo + 4095]})
    if idx < 3:
        ctx.sample({"block": [lo, lo + 4095], "calls": 2 * (4096 + 256)})
    ctx.bucket("exhaustive-block", idx)
    ctx.count("sum_exhaustive_N", 4096)


def wl_smooth(ctx, idx, rng):
    """Around 16 consecutive 7-smooth numbers per case."""
    tab = oracles.smooth_table()
    n62 = bisect.bisect_left(tab, 2 ** 62)
    stride = 1 if ctx.tier == "thorough" else 8
    base = idx * 16 * stride + (ctx.seed % stride if stride > 1 else 0)
    nf, pf = pb.utils.next_fast_len, pb.utils.prev_fast_len
    pts = []
    for j in range(16):
        i = base + j * stride
        if i >= n62:
            break
        s = tab[i]
        nxt = tab[i + 1]
        cand = [s - 1, s, s + 1]
        if nxt - s > 2:
            cand.append(int(s + 1 + rng.integers(0, min(nxt - s - 1, 2 ** 62))))
        for N in cand:
            if 0 <= N < 2 ** 62:
                Na = N
                if rng.random() < 0.15:
                    # the length as a NumPy integer scalar (len() of an array shape, a header field): narrowest type that holds N, or int64
                    for t_ in (np.int32, np.uint32, np.int64, np.uint64):
                        if N <= np.iinfo(t_).max and rng.random() < 0.6:
                            Na = t_(N)
                            break
                if rng.random() < 0.5:
                    nf(Na), pf(Na)
                else:
                    pf(Na), nf(Na)
                pts.append(N)
    ctx.describe_case({"around_smooth": pts[:6]})
    if idx % 500 == 0:
        ctx.sample({"around_smooth": pts[:8]})
    if pts:
        ctx.bucket("smooth", idx)
    ctx.count("sum_smooth_points", len(pts))


def special_numbers():
    """7-smooth numbers with a simple structure (pure prime powers and prime power x small factor) below 2^62."""
    out = set()
    for p in (2, 3, 5, 7):
        v = 1
        while v < 2 ** 62:
            for m in (1, 2, 3, 5, 7, 4, 6, 9, 10, 25, 49, 35):
                if v * m < 2 ** 62:
                    out.add(v * m)
            v *= p
    return sorted(out)


def wl_special(ctx, idx, rng):
    sp = special_numbers()
    nf, pf = pb.utils.next_fast_len, pb.utils.prev_fast_len
    pts = []
    for s in sp[idx * 8:(idx + 1) * 8]:
        for N in (s - 2, s - 1, s, s + 1, s + 2):
            if 0 <= N < 2 ** 62:
                nf(N)
                pf(N)
                pts.append(N)
    ctx.describe_case({"around_special": pts[:6]})
    if idx % 20 == 0:
        ctx.sample({"around_special": pts[:10]})
    ctx.bucket("special", idx)


def wl_fast_len(ctx, idx, rng):
    clsname = gen.CLASS_NAMES[idx % 6]
    if idx % 40 == 39:
        n = int(gen.pick(rng, [117649 + 3, 117600 + 1, 10 ** 5 + 7, 823543 + 11, 2 ** 20 - 1, 390625 + 1]))
        use_dask = True
        extra = ()
    else:
        n = int(rng.integers(0, 5001)) if idx % 3 else int(gen.pick(rng, [0, 1, 2, 10, 11, 13, 4374, 4375, 4376, 2401, 2402, 4999]))
        use_dask = rng.random() < 0.2
        extra = None if n < 600 else ()
    sig, desc = gen.make_signal(rng, clsname, n, dask=use_dask, extra=extra, nchan=None if n < 600 else 1,
                                data_kind="coded" if n < 600 else "normal")
    ctx.describe_case(desc)
    out, exc = ctx.call("fast_len", pb.fast_len, sig)
    if exc is not None:
        return
    ctx.count("oracle[fast_len]")
    want = oracles.prev_smooth(n)
    if len(out) != want:
        ctx.violation("fast_len", f"fast_len kept {len(out)} of {n} samples, prev 7-smooth is {want}", None, {"what": "len"})
        return
    if type(out) is not type(sig):
        ctx.violation("fast_len", "fast_len changed the class", None, {"what": "class"})
    with probes.quiet():
        mi, mo = monitors.meta_of(sig), monitors.meta_of(out)
        for k in ("rate", "fc", "bw", "align", "pol", "meta", "dtype", "dask"):
            if k in mi and mi[k] != mo.get(k):
                ctx.violation("fast_len", f"fast_len changed {k}", None, {"what": "meta_" + k})
        if not monitors.same_time(mi["start"], mo["start"], 0):
            ctx.violation("fast_len", "fast_len changed start_time (it crops from the end)", None, {"what": "start"})
        if n <= 5000:
            a, b = gen.np_data(sig)[:want], gen.np_data(out)
            if a.shape != b.shape or not np.array_equal(a, b):
                ctx.violation("fast_len", "retained samples differ from z.data[:m]", None, {"what": "data"})
        monitors.check_span(ctx, "fast_len", out)
    if n > 10:
        ctx.bucket("fast_len", clsname, n)
    if idx < 4:
        ctx.sample(desc)


def workloads(ctx):
    q = ctx.tier == "quick"
    tab = oracles.smooth_table()
    n62 = bisect.bisect_left(tab, 2 ** 62)
    stride = 8 if q else 1
    return [
        ("exhaustive", (2 ** 17 // 4096 + 1) if q else (2 ** 22 // 4096 + 1), wl_exhaustive),
        ("smooth", n62 // (16 * stride) + 1, wl_smooth),
        ("special", len(special_numbers()) // 8 + 1, wl_special),
        ("fast_len", 600 if q else 12000, wl_fast_len),
    ]


def setup(ctx):
    signal.signal(signal.SIGALRM, _on_alarm)
    FastLenMonitor(ctx).install()
    return probes.detach_all


def finalize(ctx):
    for e in probes.monitor_errors():
        ctx.inconclusive_because("monitor error: " + e[:600])
    ctx.require("oracle[next_fast_len]", 2 ** 17, "next_fast_len postcondition")
    ctx.require("oracle[prev_fast_len]", 2 ** 17, "prev_fast_len postcondition")
    ctx.require("oracle[fast_len]", 300, "fast_len oracle")
    ctx.note("exhaustive_range", [0, (2 ** 17 if ctx.tier == "quick" else 2 ** 22) + 4095])
