"""C16 - every signal object satisfies its class contract; copies reproduce it faithfully."""

import copy
import pickle
from fractions import Fraction as F

import numpy as np
import astropy.units as u
from astropy.time import Time
import dask.array as da
import cloudpickle
import pulsarbat as pb

from .. import exact, gen, probes, monitors, inject
from ..ops import op_points

from ..replay import wl_R

RULE = ("(a) invariant hook on every completed construction and on every Signal returned by any public operation "
        "(slices incl. stepped, transforms, dedispersion, STFT/ISTFT, conversions, ufuncs, container helpers) driven by a mixed "
        "operation workload over all 6 classes, NumPy and Dask; (b) negative workload: each constructor argument / settable "
        "attribute replaced by hostile values (wrong unit, vector, zero, negative, NaN, string, case variants, wrong dtype incl. "
        "unsafe casts, too few dims, zero-size sample axis, wrong fixed axis) must raise ValueError, leave no object and leave the "
        "attribute unchanged; (c) like()/pickle/cloudpickle/deepcopy/compute/persist/to_dask_array/rechunk reproduce every public "
        "attribute exactly; (d) failpoints at every statement boundary inside constructors. Non-trivial = an invariant evaluation "
        "on a live object or an asserted refusal; distinct = (class, operation or hostile-value kind, backend).")
ASSUMPTIONS = [
    "invalid values are tried one argument at a time; inf frequencies and NaN center_freq are not classed as invalid",
    "only ndarray / dask Array data (objects with ndim/shape/dtype) are given to constructors",
]
BUDGET = {"quick": 100, "thorough": 900}


def report(ctx, oracle, sig, where, at_creation=True):
    with probes.quiet():
        probs = monitors.contract_problems(sig, at_creation=at_creation)
    ctx.count(f"oracle[{oracle}]")
    for code, text in probs:
        ctx.violation(oracle, f"{type(sig).__name__} from {where}: {text}", {"where": where},
                      {"what": code, "cls": type(sig).__name__, "where": where.split("(")[0]})


class ResultMonitor:
    """Invariant hook on the result of every public operation."""

    def __init__(self, ctx):
        self.ctx = ctx

    def install(self):
        for owner, name, label in op_points():
            if name in ("__array__", "contains", "time_delay", "sample_delay", "chirp_function", "chirp_from_signal",
                        "real_to_complex"):
                continue
            probes.attach(owner, name, self, label)
        return self

    def pre(self, point, args, kwargs):
        return None

    def post(self, point, args, kwargs, tok, res, exc):
        if exc is not None:
            return
        outs = res if isinstance(res, tuple) else (res,)
        for r in outs:
            if isinstance(r, pb.Signal):
                # an out= target that already existed keeps its own state: still must satisfy the contract
                report(self.ctx, "result_invariant", r, point.label)
                self.ctx.count(f"results[{point.label}]")


# ------------------------------------------------------------------------------------------------
# (a) mixed operations
# ------------------------------------------------------------------------------------------------
def wl_ops(ctx, idx, rng):
    clsname = gen.CLASS_NAMES[idx % 6]
    use_dask = (idx // 6) % 3 == 2
    n = int(gen.pick(rng, [1, 2, 5, 16, 27, 64, 100]))
    sig, desc = gen.make_signal(rng, clsname, n, dask=use_dask,
                                rate=gen.rand_rate(rng, lo=2, hi=7.5),
                                nchan=None if clsname == "Signal" else int(rng.integers(1, 5)))
    ctx.describe_case(desc)
    cls = type(sig)
    ops = []
    cur = sig

    def do(label, fn, expect=None):
        nonlocal cur
        ops.append(label)
        out, exc = ctx.call("result_invariant", fn, where=label, expect="any")
        if exc is not None:
            if isinstance(exc, ValueError) and "single chunk" in str(exc) and isinstance(cur.data, da.Array):
                ctx.count("dask_refused_time_chunked_fft")      # Dask's own refusal, allowed (see C09)
            elif expect is None:
                ctx.unexpected_exception("result_invariant", exc, label)
        if exc is None and isinstance(out, pb.Signal):
            cur = out
        return out

    k = int(rng.integers(2, 6))
    for _ in range(k):
        L = len(cur)
        choice = int(rng.integers(12))
        if choice == 0 and L > 1:
            s = int(rng.integers(2, 4))
            do("step_slice", lambda: cur[int(rng.integers(0, L))::s])
        elif choice == 1:
            a = int(rng.integers(0, L + 1))
            do("slice", lambda: cur[a:int(rng.integers(a, L + 1))])
        elif choice == 2 and isinstance(cur, pb.RadioSignal) and cur.shape[1] > 1:
            a = int(rng.integers(0, cur.shape[1]))
            do("freq_slice", lambda: cur[:, a:int(rng.integers(a + 1, cur.shape[1] + 1))])
        elif choice == 3 and L > 0:
            do("time_shift", lambda: pb.time_shift(cur, float(rng.uniform(-2, 2)), crop=bool(rng.integers(2))))
        elif choice == 4 and isinstance(cur, pb.BasebandSignal) and L > 0:
            do("freq_shift", lambda: pb.freq_shift(cur, cur.sample_rate * float(rng.uniform(-0.3, 0.3))))
        elif choice == 5:
            do("fast_len", lambda: pb.fast_len(cur))
        elif choice == 6 and isinstance(cur, pb.BasebandSignal) and L >= 4:
            nps = int(gen.pick(rng, [1, 2, 3, 4]))
            st = do("stft", lambda: pb.contrib.stft(cur, nperseg=nps))
            if st is not None and rng.random() < 0.5:
                do("istft", lambda: pb.contrib.istft(cur, nperseg=nps))
        elif choice == 7 and isinstance(cur, pb.DualPolarizationSignal):
            do(gen.pick(rng, ["to_linear", "to_circular", "to_stokes"]), lambda: getattr(cur, ops and "to_" + gen.pick(rng, ["linear", "circular", "stokes"]))())
        elif choice == 8 and isinstance(cur, pb.BasebandSignal):
            do("to_intensity", lambda: cur.to_intensity())
        elif choice == 9 and L > 1:
            a = int(rng.integers(1, L))
            do("concatenate", lambda: pb.concatenate([cur[:a], cur[a:]]))
        elif choice == 10:
            do("ufunc", lambda: np.add(cur, cur) if cur.dtype.kind != "b" else cur)
        elif choice == 11:
            which = gen.pick(rng, ["compute", "persist", "to_dask_array", "rechunk" if L > 0 else "persist"])
            do(which, lambda: getattr(cur, which)())
        if isinstance(cur, pb.FullStokesSignal) and rng.random() < 0.3:
            do("stokes_key", lambda: cur[gen.pick(rng, ["I", "Q", "U", "V"])])
    if isinstance(cur, pb.RadioSignal) and len(cur) > 4 and float(cur.min_freq.to_value(u.Hz)) > 0:
        dm = pb.DispersionMeasure(float(rng.uniform(-1e-3, 1e-3)))
        if isinstance(cur, pb.BasebandSignal):
            do("coherent_dedispersion", lambda: pb.coherent_dedispersion(cur, dm), expect="any")
        do("incoherent_dedispersion", lambda: pb.incoherent_dedispersion(cur, dm), expect="any")
    desc.update(ops=ops)
    ctx.sample(desc)
    for o in set(ops):
        ctx.bucket("ops", clsname, o, "dask" if use_dask else "np")


# ------------------------------------------------------------------------------------------------
# (b) negative constructions / assignments
# ------------------------------------------------------------------------------------------------
def hostile_freq(rng, positive=True):
    vals = [
        ("wrong_unit_s", 4.0 * u.s), ("wrong_unit_m", 4.0 * u.m), ("dimensionless", 4.0 * u.one),
        ("vector", [1.0, 2.0] * u.Hz), ("vector1", [1.0] * u.Hz), ("plain_float", 4.0), ("plain_int", 4), ("string", "4 Hz"),
        ("none", None), ("array", np.array(4.0)),
    ]
    if positive:
        vals += [("zero", 0.0 * u.Hz), ("negative", -2.0 * u.MHz), ("nan", np.nan * u.Hz), ("negzero", -0.0 * u.kHz)]
    return vals


def hostile_time():
    return [("float", 59867.2442234), ("array_time", Time([59000.0, 59001.0], format="mjd")), ("quantity", 3 * u.s),
            ("garbage_str", "not a time"), ("int", 5), ("list", [1, 2]),
            # arrays of times already in the library's own normal form (isot, 9 digits), also with a single element, 2-D, empty
            ("array_isot9", Time(["2021-03-04T05:06:07", "2021-03-04T05:06:08"], format="isot", precision=9)),
            ("array1_isot9", Time(["2021-03-04T05:06:07"], format="isot", precision=9)),
            ("array2d_isot9", Time([["2021-03-04T05:06:07"]], format="isot", precision=9)),
            ("array1_mjd", Time([59000.0], format="mjd"))]


def hostile_enum(valid):
    v = sorted(valid)[0]
    return [("case", v.capitalize()), ("upper", v.upper()), ("space", v + " "), ("bytes", v.encode()), ("none", None), ("int", 0),
            ("other", "middle"), ("list", [v]), ("empty", "")]


def hostile_meta():
    return [("int", 5), ("float", 3.2), ("string", "abc"), ("list", [1, 2]), ("set", {1, 2})]


def snapshot_attrs(sig):
    with probes.quiet():
        out = {}
        for k in ("sample_rate", "start_time", "meta", "center_freq", "chan_bw", "freq_align", "pol_type"):
            if hasattr(sig, k):
                v = getattr(sig, k)
                out[k] = (repr(v), None if v is None else id(v))
        return out


def wl_negative(ctx, idx, rng):
    clsname = gen.CLASS_NAMES[idx % 6]
    cls = gen.cls_of(clsname)
    use_dask = (idx // 6) % 4 == 3
    good, desc = gen.make_signal(rng, clsname, int(rng.integers(0, 5)), dask=use_dask)
    base_kw = dict(sample_rate=good.sample_rate, start_time=good.start_time, meta=good.meta)
    if clsname != "Signal":
        base_kw.update(center_freq=good.center_freq, freq_align=good.freq_align)
        if clsname not in gen.BASEBAND:
            base_kw["chan_bw"] = good.chan_bw
        if clsname == "DualPolarizationSignal":
            base_kw["pol_type"] = good.pol_type
    data = good.data
    table = [("sample_rate", hostile_freq(rng)), ("start_time", hostile_time()), ("meta", hostile_meta())]
    if clsname != "Signal":
        table += [("center_freq", hostile_freq(rng, positive=False)), ("freq_align", hostile_enum({"bottom", "center", "top"}))]
        if clsname not in gen.BASEBAND:
            table.append(("chan_bw", hostile_freq(rng)))
        if clsname == "DualPolarizationSignal":
            table.append(("pol_type", hostile_enum({"linear", "circular"})))
    arg, vals = table[(idx // 24) % len(table)]
    for kind, bad in vals:
        kw = dict(base_kw)
        kw[arg] = bad
        ctx.count("oracle[refusal]")
        obj, exc = ctx.call("refusal", cls, data, expect=ValueError, where=f"{clsname}({arg}={kind})",
                            features={"arg": arg, "kind": kind}, **kw)
        ctx.bucket("neg_ctor", clsname, arg, kind)
        # assignment of the same value on a live object: ValueError and the attribute is unchanged
        live = cls(data, **base_kw)
        before = snapshot_attrs(live)
        _, exc = ctx.call("refusal", lambda: setattr(live, arg, bad), expect=ValueError, where=f"{clsname}.{arg} = {kind}",
                          features={"arg": arg, "kind": kind, "assign": True})
        after = snapshot_attrs(live)
        ctx.count("oracle[refusal_assign]")
        if before != after and exc is not None:
            ctx.violation("refusal", f"failed assignment {clsname}.{arg} = <{kind}> changed the object: {before} -> {after}", None,
                          {"what": "partial_assignment", "arg": arg})
        report(ctx, "post_assign_invariant", live, f"{clsname}.{arg} = {kind}", at_creation=False)
    desc.update(arg=arg)
    ctx.describe_case(desc)
    ctx.sample(desc, limit=3)

    # missing required keyword arguments
    for req in [k for k in ("sample_rate", "center_freq", "chan_bw", "pol_type") if k in base_kw]:
        kw = dict(base_kw)
        del kw[req]
        obj, exc = ctx.call("refusal", cls, data, expect=(TypeError, ValueError), where=f"{clsname}(missing {req})", **kw)


def wl_bad_data(ctx, idx, rng):
    clsname = gen.CLASS_NAMES[idx % 6]
    cls = gen.cls_of(clsname)
    good, desc = gen.make_signal(rng, clsname, 3)
    kw = dict(sample_rate=good.sample_rate, start_time=good.start_time, meta=good.meta)
    if clsname != "Signal":
        kw.update(center_freq=good.center_freq, freq_align=good.freq_align)
        if clsname not in gen.BASEBAND:
            kw["chan_bw"] = good.chan_bw
        if clsname == "DualPolarizationSignal":
            kw["pol_type"] = good.pol_type
    req = cls._req_shape
    shp = list(good.shape)
    dt = good.dtype
    use_dask = rng.random() < 0.3

    def arr(shape, dtype):
        x = np.zeros(shape, dtype=dtype)
        return da.from_array(x, chunks=-1) if use_dask else x

    cases = []
    # too few dimensions
    for nd in range(0, len(req)):
        cases.append((f"ndim{nd}", arr(tuple(shp[:nd]) if nd else (), dt), ValueError))
    # zero-size sample axis
    for ax in range(1, len(shp)):
        s2 = list(shp)
        s2[ax] = 0
        if req[ax] if ax < len(req) else None:
            continue
        cases.append((f"zero_axis{ax}", arr(tuple(s2), dt), ValueError))
    if len(shp) == 1:
        cases.append(("zero_trailing", arr((3, 0), dt), ValueError))
    # the same with an empty time axis as well (e.g. an empty time slice whose channels were all masked out)
    for ax in range(1, len(shp)):
        s2 = list(shp)
        s2[0] = 0
        if (req[ax] if ax < len(req) else None):
            continue
        s2[ax] = 0
        cases.append((f"zero_time_and_axis{ax}", arr(tuple(s2), dt), ValueError))
    if len(shp) == 1:
        cases.append(("zero_time_and_trailing", arr((0, 0), dt), ValueError))
    # wrong fixed axis
    for ax, r in enumerate(req):
        if r is not None:
            for wrong in (r - 1, r + 1, 1):
                s2 = list(shp)
                s2[ax] = wrong
                cases.append((f"fixed_axis{ax}={wrong}", arr(tuple(s2), dt), ValueError))
    # a fixed axis whose length Dask does not know (boolean-mask selection): the right length cannot be vouched for
    for ax, r in enumerate(req):
        if r is not None:
            for keep in (r, r + 1):
                s2 = list(shp)
                s2[ax] = r + 2
                base_ = da.from_array(np.zeros(tuple(s2), dtype=dt), chunks=-1)
                msk = da.from_array(np.arange(r + 2) < keep, chunks=-1)
                sel = base_[(slice(None),) * ax + (msk,)]
                cases.append((f"unknown_len_axis{ax}_really{keep}", sel, ValueError))
    # dtypes
    allowed = [np.dtype(d) for d in cls._req_dtype]
    for d in [np.int8, np.uint16, np.int64, np.float32, np.float64, np.complex64, np.complex128, np.bool_, np.float16,
              ">f4", ">f8", ">c8", ">c16", ">i2"]:      # the last five: data in the byte order of a big-endian file
        d = np.dtype(d)
        x = arr(tuple(shp), d)
        if not allowed or d in allowed:
            cases.append((f"dtype_{d}", x, None, d))
        elif np.can_cast(d, allowed[0], casting="safe"):
            cases.append((f"safecast_{d}", x, None, allowed[0]))
        else:
            cases.append((f"unsafe_{d}", x, ValueError))
    for c in cases:
        label, x, expect = c[0], c[1], c[2]
        ctx.count("oracle[data_contract]")
        obj, exc = ctx.call("data_contract", cls, x, expect=expect, where=f"{clsname}(data {label})",
                            features={"kind": label.split("_")[0]}, **kw)
        ctx.bucket("data", clsname, label, "dask" if use_dask else "np")
        if exc is None and obj is not None and len(c) > 3 and obj.dtype != c[3]:
            ctx.violation("data_contract", f"{clsname} given {x.dtype} has dtype {obj.dtype}, expected {c[3]}", None,
                          {"what": "cast", "kind": label})
    ctx.describe_case({"cls": clsname, "dask": use_dask, "ncases": len(cases)})


# ------------------------------------------------------------------------------------------------
# (c) faithful copies
# ------------------------------------------------------------------------------------------------
def attrs_equal(ctx, oracle, a, b, where, data_equal=True, same_class=True):
    with probes.quiet():
        ma, mb = monitors.meta_of(a), monitors.meta_of(b)
    ctx.count(f"oracle[{oracle}]")
    feats = {"where": where}
    if same_class and type(a) is not type(b):
        ctx.violation(oracle, f"{where}: class {type(a).__name__} -> {type(b).__name__}", None, dict(feats, what="class"))
    for k in ("shape", "dtype", "rate", "meta", "fc", "bw", "align", "pol"):
        if k in ma and k in mb and ma[k] != mb[k]:
            ctx.violation(oracle, f"{where}: attribute {k} changed {ma[k]!r} -> {mb[k]!r}", None, dict(feats, what=k))
    for k in ("sample_rate", "center_freq", "chan_bw"):
        if hasattr(a, k) and hasattr(b, k):
            qa, qb = getattr(a, k), getattr(b, k)
            if qa.unit != qb.unit or qa.value != qb.value:
                ctx.violation(oracle, f"{where}: {k} changed {qa!r} -> {qb!r}", None, dict(feats, what=k + "_repr"))
    sa, sb = ma["start"], mb["start"]
    if (sa is None) != (sb is None) or (sa is not None and (sa.jd1 != sb.jd1 or sa.jd2 != sb.jd2 or sa.scale != sb.scale)):
        ctx.violation(oracle, f"{where}: start_time changed {sa!r} -> {sb!r}", None, dict(feats, what="start"))
    if data_equal:
        with probes.quiet():
            xa, xb = gen.np_data(a), gen.np_data(b)
        if xa.shape != xb.shape or not np.array_equal(xa, xb, equal_nan=True):
            ctx.violation(oracle, f"{where}: data changed", None, dict(feats, what="data"))


def _kw_of(sig, meta):
    """Constructor keywords reproducing ``sig`` with another meta."""
    kw = dict(sample_rate=sig.sample_rate, start_time=sig.start_time, meta=meta)
    if isinstance(sig, pb.RadioSignal):
        kw.update(center_freq=sig.center_freq, freq_align=sig.freq_align)
        if not isinstance(sig, pb.BasebandSignal):
            kw["chan_bw"] = sig.chan_bw
    if isinstance(sig, pb.DualPolarizationSignal):
        kw["pol_type"] = sig.pol_type
    return kw


def wl_meta_kinds(ctx, idx, rng):
    """meta given as anything dict() accepts (mappings that are not dicts, pair lists): stored as a plain dict or refused, never verbatim."""
    import collections
    import types
    clsname = gen.CLASS_NAMES[idx % 6]
    base = {"a": 1, "b": [1, 2]}
    kinds = [("MappingProxyType", types.MappingProxyType(dict(base))), ("ChainMap", collections.ChainMap(dict(base), {"c": 3})),
             ("UserDict", collections.UserDict(base)), ("OrderedDict", collections.OrderedDict(base)), ("pairs", list(base.items())),
             ("empty_dict", {}), ("defaultdict", collections.defaultdict(list, base)), ("Counter", collections.Counter("aab"))]
    # values that are neither a mapping nor None, including the falsy ones, are refused
    kinds += [("zero", 0), ("false", False), ("zero_float", 0.0), ("one", 1), ("str", "meta")]      # ('' is an empty sequence of pairs: dict('') == {})
    kname, meta = kinds[(idx // 6) % len(kinds)]
    how = (idx // (6 * len(kinds))) % 2
    o = "meta_contract"
    if kname in ("zero", "false", "zero_float", "one", "str"):
        def build_bad():
            if how == 0:
                return gen.cls_of(clsname)(gen.np_data(gen.make_signal(rng, clsname, 3, meta=None)[0]), **_kw_of(gen.make_signal(rng, clsname, 3, meta=None)[0], meta))
            s0, _ = gen.make_signal(rng, clsname, 3, meta={"keep": 1})
            s0.meta = meta
            return s0
        ctx.count("oracle[meta_contract]")
        ctx.describe_case({"cls": clsname, "meta_kind": kname, "how": ["constructor", "assignment"][how]})
        ctx.call(o, build_bad, expect=ValueError, where=f"{clsname} meta={meta!r} ({['constructor', 'assignment'][how]})",
                 features={"kind": kname, "what": "non_mapping_meta"})
        ctx.bucket("meta_kind", clsname, kname, how)
        return
    if how == 0:
        sig, exc = ctx.call(o, lambda: gen.make_signal(rng, clsname, 3, meta=meta)[0], expect="any", where=f"{clsname}(meta={kname})")
    else:
        sig0, _ = gen.make_signal(rng, clsname, 3, meta=None)

        def assign():
            sig0.meta = meta
            return sig0
        sig, exc = ctx.call(o, assign, expect="any", where=f"{clsname}.meta = {kname}")
    ctx.count("oracle[meta_contract]")
    ctx.describe_case({"cls": clsname, "meta_kind": kname, "how": ["constructor", "assignment"][how]})
    if exc is not None:
        if not isinstance(exc, ValueError):
            ctx.violation(o, f"meta={kname} raised {type(exc).__name__}, expected ValueError or acceptance as a dict", None,
                          {"what": "exc_type", "kind": kname})
        return
    report(ctx, o, sig, f"meta={kname}", at_creation=False)
    with probes.quiet():
        if sig.meta is not None and dict(sig.meta) != dict(meta):
            ctx.violation(o, f"meta={kname}: contents changed", None, {"what": "contents", "kind": kname})
        if kname == "empty_dict":
            # an empty dict is a dict, not "no meta": the signal and its copies keep {}
            for lab, s_ in (("the signal", sig), ("like()", type(sig).like(sig)), ("a slice", sig[0:2]), ("to_dask_array()", sig.to_dask_array())):
                if s_.meta != {} or s_.meta is None:
                    ctx.violation(o, f"meta={{}}: {lab} has meta {s_.meta!r}", None, {"what": "empty_dict_lost", "kind": kname})
                    break
        # derived signals carry a dict too
        d = sig[0:2]
    report(ctx, o, d, f"slice of a signal built with meta={kname}", at_creation=False)
    ctx.bucket("meta_kind", clsname, kname, how)


class GainSignal(pb.Signal):
    """A user subclass whose extra attributes are ordinary (positional-or-keyword) constructor parameters with defaults."""

    def __init__(self, z, /, gain=1.0, label="none", *, sample_rate, start_time=None, meta=None):
        super().__init__(z, sample_rate=sample_rate, start_time=start_time, meta=meta)
        self._gain, self._label = gain, label

    @property
    def gain(self):
        return self._gain

    @property
    def label(self):
        return self._label


def wl_copies(ctx, idx, rng):
    clsname = gen.CLASS_NAMES[idx % 6]
    use_dask = (idx // 6) % 3 == 1
    sig, desc = gen.make_signal(rng, clsname, int(rng.integers(0, 9)), dask=use_dask)
    if clsname == "Signal" and gen._side_rng(rng).random() < 0.5:
        with probes.quiet():
            sig = GainSignal.like(sig, gain=2.5, label="cal")
        desc["user_subclass"] = True
        # every copy / derived signal of a user subclass keeps the subclass's own attributes
        for lab, mk in (("like", lambda: GainSignal.like(sig)), ("slice", lambda: sig[0:1]), ("to_dask_array", sig.to_dask_array),
                        ("compute", sig.compute), ("ufunc", lambda: sig * 2), ("pickle", lambda: pickle.loads(pickle.dumps(sig))),
                        ("deepcopy", lambda: copy.deepcopy(sig))):
            r_, e_ = ctx.call("faithful_copy", mk, where=f"GainSignal {lab}")
            if e_ is None:
                ctx.count("oracle[user_subclass_attrs]")
                if type(r_) is not GainSignal or (r_.gain, r_.label) != (2.5, "cal"):
                    ctx.violation("faithful_copy", f"{lab} of a user subclass instance: class {type(r_).__name__}, gain/label "
                                                   f"{(getattr(r_, 'gain', None), getattr(r_, 'label', None))!r}, expected (2.5, 'cal')", None,
                                  {"what": "subclass_attrs", "via": lab})
    cls = type(sig)
    ctx.describe_case(desc)
    # like() same class
    out, exc = ctx.call("faithful_copy", cls.like, sig, where="like")
    if exc is None:
        attrs_equal(ctx, "faithful_copy", sig, out, "like")
    # like() with new data keeps metadata
    with probes.quiet():
        x2 = gen.np_data(sig) * 2
    out, exc = ctx.call("faithful_copy", cls.like, sig, x2, where="like(z)")
    if exc is None:
        attrs_equal(ctx, "faithful_copy", sig, out, "like(z)", data_equal=False)
    # like() into an ancestor class keeps the shared attributes
    for anc in cls.__mro__[1:]:
        if anc in monitors.ALL_CLASSES:
            out, exc = ctx.call("faithful_copy", anc.like, sig, where=f"{anc.__name__}.like")
            if exc is None:
                if type(out) is not anc:
                    ctx.violation("faithful_copy", f"{anc.__name__}.like returned {type(out).__name__}", None, {"what": "class"})
                attrs_equal(ctx, "faithful_copy", sig, out, f"{anc.__name__}.like", same_class=False)
    # overriding one keyword changes only that attribute
    newrate = sig.sample_rate * 2
    out, exc = ctx.call("faithful_copy", cls.like, sig, sample_rate=newrate, where="like(sample_rate=)")
    if exc is None:
        with probes.quiet():
            if exact.hz(out.sample_rate) != exact.hz(newrate):
                ctx.violation("faithful_copy", "like(sample_rate=...) ignored the override", None, {"what": "override"})
            if sig.meta != out.meta or (sig.start_time is None) != (out.start_time is None):
                ctx.violation("faithful_copy", "like(sample_rate=...) changed other attributes", None, {"what": "override_other"})
    # an override given explicitly as None is an override (the copy has no start time / no meta), not "keep the reference's"
    for attr in ("start_time", "meta"):
        out, exc = ctx.call("faithful_copy", cls.like, sig, where=f"like({attr}=None)", **{attr: None})
        if exc is None:
            ctx.count("oracle[like_none_override]")
            with probes.quiet():
                got = getattr(out, attr)
                other = "meta" if attr == "start_time" else "start_time"
                same_other = (out.meta == sig.meta) if other == "meta" else monitors.same_time(out.start_time, sig.start_time, 0)
            if got is not None:
                ctx.violation("faithful_copy", f"like(z, {attr}=None) kept the reference's {attr} ({got!r:.60})", None,
                              {"what": "none_override_ignored", "attr": attr})
            if not same_other:
                ctx.violation("faithful_copy", f"like(z, {attr}=None) changed {other}", None, {"what": "override_other", "attr": attr})
    # pickles
    for name, dumps, loads in (("pickle", pickle.dumps, pickle.loads), ("cloudpickle", cloudpickle.dumps, cloudpickle.loads),
                               ("deepcopy", copy.deepcopy, None), ("copy", copy.copy, None)):
        if loads is None:
            out, exc = ctx.call("faithful_copy", dumps, sig, where=name)
        else:
            out, exc = ctx.call("faithful_copy", lambda: loads(dumps(sig)), where=name)
        if exc is None:
            attrs_equal(ctx, "faithful_copy", sig, out, name)
            report(ctx, "copy_invariant", out, name, at_creation=False)
    # container helpers
    for name in ("compute", "persist", "to_dask_array", "rechunk"):
        out, exc = ctx.call("faithful_copy", getattr(sig, name), where=name,
                            features={"op": name, "empty_signal": len(sig) == 0, "default_chunks": True})
        if exc is None:
            attrs_equal(ctx, "faithful_copy", sig, out, name)
            is_dask = isinstance(out.data, da.Array)
            want = {"compute": False, "persist": use_dask, "to_dask_array": True, "rechunk": True}[name]
            if is_dask != want:
                ctx.violation("faithful_copy", f"{name}() returned {'dask' if is_dask else 'numpy'} data", None, {"what": "container"})
    ctx.bucket("copies", clsname, "dask" if use_dask else "np", sig.start_time is None, sig.meta is None)
    ctx.sample(desc, limit=3)


# ------------------------------------------------------------------------------------------------
# (d) failpoints in constructors
# ------------------------------------------------------------------------------------------------
def wl_failpoints(ctx, idx, rng):
    clsname = gen.CLASS_NAMES[idx % 6]
    cls = gen.cls_of(clsname)
    good, desc = gen.make_signal(rng, clsname, 4)
    kw = dict(sample_rate=good.sample_rate, start_time=good.start_time, meta=good.meta)
    if clsname != "Signal":
        kw.update(center_freq=good.center_freq, freq_align=good.freq_align)
        if clsname not in gen.BASEBAND:
            kw["chan_bw"] = good.chan_bw
        if clsname == "DualPolarizationSignal":
            kw["pol_type"] = good.pol_type
    tool = inject.tool()
    which = idx // 6 % 2
    if which == 0:
        fn = lambda: cls(good.data, **kw)
        label = "ctor"
    else:
        fn = lambda: good[1:3]
        label = "getitem"
    with probes.quiet():
        K, res, exc = tool.count_call(fn)
    if exc is not None:
        ctx.unexpected_exception("failpoint", exc, label)
        return
    holder = {}
    for k in range(1, K + 1):
        holder.clear()

        def run():
            holder["obj"] = fn()
            return holder["obj"]
        with probes.quiet():
            res, exc, at = tool.fault_call(run, k)
        ctx.count("crash_points")
        if isinstance(exc, inject.InjectedFault):
            if "obj" in holder:
                ctx.violation("failpoint", f"{label}: an object was returned although the call raised at {at}", None, {"what": "leak"})
        elif exc is None:
            # the fault was swallowed by library code (e.g. a bare `except Exception`): the object must still be valid
            ctx.count("faults_swallowed")
            if isinstance(res, pb.Signal):
                report(ctx, "failpoint", res, f"{label} after swallowed fault at {at}")
        elif not isinstance(exc, ValueError):
            ctx.count("faults_translated_other")
        else:
            ctx.count("faults_translated_valueerror")
        with probes.quiet():
            # the reference object used as input is unharmed
            probs = monitors.contract_problems(good, at_creation=False)
        for code, text in probs:
            ctx.violation("failpoint", f"input object damaged after fault at {at}: {text}", None, {"what": "input_" + code})
    ctx.bucket("failpoints", clsname, label)
    ctx.describe_case(dict(desc, crash_points=K, which=label))


def install_universal(ctx):
    def on_built(sig):
        ctx.count("constructions_seen")
        report(ctx, "construction_invariant", sig, "constructor")
    monitors.ConstructionMonitor(on_built=on_built).install()
    ResultMonitor(ctx).install()
    return probes.detach_all


def workloads(ctx):
    q = ctx.tier == "quick"
    return [("R", 1, wl_R), 
        ("ops", 600 if q else 30000, wl_ops),
        ("negative", 288 if q else 5760, wl_negative),
        ("bad_data", 60 if q else 1200, wl_bad_data),
        ("copies", 180 if q else 7200, wl_copies),
        ("meta_kinds", 168 if q else 1680, wl_meta_kinds),
        ("failpoints", 24 if q else 240, wl_failpoints),
    ]


def setup(ctx):
    def on_built(sig):
        ctx.count("constructions_seen")
        report(ctx, "construction_invariant", sig, "constructor")
    monitors.ConstructionMonitor(on_built=on_built).install()
    ResultMonitor(ctx).install()

    def teardown():
        probes.detach_all()
        inject.tool().stop()
    return teardown


def finalize(ctx):
    for e in probes.monitor_errors():
        ctx.inconclusive_because("monitor error: " + e[:600])
    ctx.require("oracle[construction_invariant]", 2000, "invariant hook on constructions")
    ctx.require("oracle[result_invariant]", 500, "invariant hook on operation results")
    ctx.require("oracle[refusal]", 300, "refusal oracle")
    ctx.require("oracle[faithful_copy]", 300, "copy oracle")
    ctx.require("crash_points", 100, "constructor crash points")
