"""C06 - dispersion delays obey the f^-2 law; incoherent dedispersion realigns by them."""

import math
from fractions import Fraction as F

import numpy as np
import astropy.units as u
import dask.array as da
import pulsarbat as pb

from .. import exact, gen, probes, monitors, oracles

from ..replay import wl_R

RULE = ("(a) time_delay / sample_delay probes: DM of either sign over 1e-3..1e3 (units pc/cm^3, pc/m^3, kpc/cm^3, 1/cm^2 equivalents), "
        "frequencies 1e7..1e11 Hz scalar and arrays in Hz/kHz/MHz/GHz, reference incl. infinity; compared with the exact rational law, "
        "antisymmetry and chain additivity. (b) incoherent_dedispersion on coded data (value = time index*1024 + flat sample index): "
        "4 radio classes x nchan 1-16 x alignment x len 1-400 x DM x f_ref {None,min,max,inside,outside} x start {None,Time} x trailing "
        "dims x NumPy/Dask: every output sample is decoded to its source and compared with start_time + exact rounded delay at the "
        "channel label. Non-trivial = at least one non-empty output sample decoded; distinct = (class, nchan, alignment, ref kind, DM "
        "sign, start?, backend).")
ASSUMPTIONS = [
    "delays within 1e-9 (+ float64 evaluation bound) of a half-integer accept either neighbouring rounding",
    "requests without any valid output time may return an empty signal or raise ValueError (counted as degenerate)",
    "band entirely above 0 Hz",
]
BUDGET = {"quick": 110, "thorough": 1200}

DM_UNITS = [u.pc / u.cm ** 3, u.pc / u.m ** 3, u.kpc / u.cm ** 3, u.pc / u.mm ** 3]


def make_dm(rng, value):
    unit = gen.pick(rng, DM_UNITS) if rng.random() < 0.4 else DM_UNITS[0]
    q = (value * u.pc / u.cm ** 3).to(unit)
    if gen._side_rng(rng).random() < 0.25:
        # the same DM reached by another history (a DM-trial loop): built with another value, used once with every public method,
        # then changed in place to the wanted value (0 + q is exact)
        with probes.quiet():
            dm = pb.DispersionMeasure(q * 3 + 1.0 * unit)
            f = np.array([300.0, 400.0]) * u.MHz
            dm.time_delay(f, 350 * u.MHz)
            dm.sample_delay(f, 350 * u.MHz, 1 * u.MHz)
            dm.chirp_function(8, 1 * u.us, 350 * u.MHz, 351 * u.MHz)
            repr(dm)
            dm -= dm
            dm += q
        return dm
    return pb.DispersionMeasure(q)


class DelayMonitor:
    """Postcondition of DispersionMeasure.time_delay / sample_delay."""

    def __init__(self, ctx):
        self.ctx = ctx

    def install(self):
        DMc = pb.transforms.dedispersion.DispersionMeasure
        probes.attach(DMc, "time_delay", self, "DM.time_delay")
        probes.attach(DMc, "sample_delay", self, "DM.sample_delay")
        return self

    def pre(self, point, args, kwargs):
        return None

    def post(self, point, args, kwargs, tok, res, exc):
        ctx = self.ctx
        if exc is not None:
            return
        dm = args[0]
        f = args[1] if len(args) > 1 else kwargs["f"]
        ref = args[2] if len(args) > 2 else kwargs["ref_freq"]
        o = "delay_law"
        try:
            dmv = oracles.dm_value(dm)
            fv = np.atleast_1d(f.to_value(u.Hz)).astype(np.float64)
            rv = np.atleast_1d(ref.to_value(u.Hz)).astype(np.float64)
        except Exception:
            return
        if point.label == "DM.sample_delay":
            sr = args[3] if len(args) > 3 else kwargs["sample_rate"]
            srv = exact.hz(sr)
            got = np.atleast_1d(np.asarray(res, dtype=np.float64))
            if isinstance(res, u.Quantity):
                ctx.violation(o, "sample_delay returned a Quantity, not a plain number of samples", None, {"what": "sample_delay_type"})
                return
        else:
            srv = F(1)
            try:
                got = np.atleast_1d(res.to_value(u.s)).astype(np.float64)
            except Exception:
                ctx.violation(o, f"time_delay returned {res!r}, not a time", None, {"what": "time_delay_unit"})
                return
        want_shape = np.broadcast(fv, rv).shape
        if got.shape != want_shape:
            if got.size != int(np.prod(want_shape)):
                ctx.violation(o, f"delay shape {got.shape} for inputs of broadcast shape {want_shape}", None, {"what": "shape"})
                return
        fb, rb = np.broadcast_to(fv, want_shape).ravel(), np.broadcast_to(rv, want_shape).ravel()
        g = got.ravel()
        step = max(1, len(g) // 24)
        for j in list(range(0, len(g), step))[:32] + [len(g) - 1]:
            if not (np.isfinite(fb[j]) and fb[j] > 0 and rb[j] > 0):
                continue
            fj = F(float(fb[j]))
            rj = None if np.isinf(rb[j]) else F(float(rb[j]))
            want = oracles.delay_s(dmv, fj, rj) * srv
            tol = oracles.delay_err_bound(dmv, fj, rj, srv) * 2 + F(1, 10 ** 300)
            ctx.count("oracle[delay_law]")
            err = abs(F(float(g[j])) - want)
            if want != 0:
                ctx.stat_max("delay_err_over_tol", float(err / tol))
            if err > tol:
                ctx.violation(o, f"{point.label}(f={fb[j]!r} Hz, ref={rb[j]!r} Hz, DM={float(dmv)!r}) = {g[j]!r}, exact K*DM*(f^-2 - ref^-2)"
                                 f"{'*rate' if srv != 1 else ''} = {float(want)!r} (rel err {float(err / abs(want)) if want else float(err):.3e})",
                              None, {"what": "law", "fn": point.label, "dm_unit_default": dm.unit == u.pc / u.cm ** 3})
                return


def decode(x):
    """coded data -> (time index, flat sample index) arrays."""
    v = np.asarray(x).real.astype(np.float64)
    return np.floor(v / 1024.0).astype(np.int64), np.mod(v, 1024.0).astype(np.int64)


class IncoherentMonitor:
    def __init__(self, ctx):
        self.ctx = ctx

    def install(self):
        probes.attach(pb.transforms.dedispersion, "incoherent_dedispersion", self, "incoherent_dedispersion")
        return self

    def pre(self, point, args, kwargs):
        z = args[0]
        if not isinstance(z, pb.RadioSignal):
            return None
        return monitors.meta_of(z)

    def post(self, point, args, kwargs, m, out, exc):
        ctx = self.ctx
        o = "incoherent"
        if m is None:
            return
        z, dm = args[0], args[1]
        ref_q = kwargs.get("ref_freq")
        ref = m["fc"] if ref_q is None else exact.hz(ref_q)
        N, nch = m["len"], m["nchan"]
        if m["fmin"] <= 0 or ref <= 0:
            return
        ctx.count("incoherent_events")
        dmv = oracles.dm_value(dm)
        labels = monitors.model_labels(m["fc"], m["bw"], m["align"], nch)
        d_exact = [oracles.delay_s(dmv, f, ref) * m["rate"] for f in labels]
        eps = [oracles.delay_err_bound(dmv, f, ref, m["rate"]) + F(1, 10 ** 9) for f in labels]
        cands = [sorted({math.floor(d + F(1, 2) - e), math.floor(d + F(1, 2) + e)}) for d, e in zip(d_exact, eps)]
        tie = any(len(c) > 1 for c in cands)
        feats = {"cls": m["cls"].__name__, "nchan": nch, "align": m["align"], "ref_default": ref_q is None,
                 "dm_negative": dmv < 0, "dask": m["dask"], "has_start": m["start"] is not None,
                 "dm_unit_default": dm.unit == u.pc / u.cm ** 3}
        # is there any valid output time at all?  T valid iff for all i: 0 <= T + r_i < N  (r_i = rounded delay)
        r_lo = [c[0] for c in cands]
        r_hi = [c[-1] for c in cands]
        n_valid_max = N - (max(r_hi) - min(r_lo))
        if exc is not None:
            if n_valid_max <= 0 or (tie and N - (max(r_lo) - min(r_hi)) <= 0):
                ctx.count("degenerate[raised]")
                if not isinstance(exc, ValueError):
                    ctx.violation(o, f"degenerate request raised {type(exc).__name__}, not ValueError", None, dict(feats, what="exc_type"))
            else:
                ctx.unexpected_exception(o, exc, "incoherent_dedispersion", dict(feats, what="raised"))
            return
        if type(out) is not m["cls"]:
            ctx.violation(o, f"returned {type(out).__name__} for {m['cls'].__name__}", None, dict(feats, what="class"))
            return
        mo = monitors.meta_of(out)
        for k in ("rate", "fc", "bw", "align", "pol", "meta", "dtype", "dask", "nchan"):
            if k in m and m[k] != mo.get(k):
                ctx.violation(o, f"incoherent_dedispersion changed {k}: {m[k]!r} -> {mo.get(k)!r}", None, dict(feats, what="meta_" + k))
        if mo["shape"][1:] != m["shape"][1:]:
            ctx.violation(o, f"sample shape changed {m['shape'][1:]} -> {mo['shape'][1:]}", None, dict(feats, what="shape"))
            return
        L = len(out)
        if L == 0:
            ctx.count("empty_outputs")
            return
        if n_valid_max <= 0 and not tie:
            ctx.violation(o, f"no output time has in-range sources in every channel (N={N}, rounded delays {r_lo}) but {L} samples were "
                             f"returned", None, dict(feats, what="degenerate_nonempty"))
            return
        if (m["start"] is None) != (out.start_time is None):
            ctx.violation(o, "start_time presence changed", None, dict(feats, what="start_presence"))
            return
        x = gen.np_data(z)
        y = gen.np_data(out)
        tin, sin_ = decode(x)
        if not (np.array_equal(tin, np.broadcast_to(np.arange(N).reshape((N,) + (1,) * (x.ndim - 1)), x.shape))):
            ctx.count("skipped_not_coded")
            return
        ctx.count("oracle[incoherent_sources]")
        tout, sout = decode(y)
        want_s = np.broadcast_to(sin_[:1], y.shape)
        if not np.array_equal(sout, want_s):
            ctx.violation(o, "an output sample comes from a different channel / trailing position than its own", None,
                          dict(feats, what="channel_mix"))
            return
        if np.iscomplexobj(y) and not np.array_equal(y.imag, (y.real % 7.0 + 0.25)):
            ctx.violation(o, "output samples are not input samples (imaginary part altered)", None, dict(feats, what="value"))
            return
        k = np.arange(L).reshape((L,) + (1,) * (y.ndim - 1))
        shift = tout - k                      # source index minus output index, per sample
        if m["start"] is not None:
            adv = exact.time_diff_s(out.start_time, m["start"]) * m["rate"]
            K0 = round(adv)
            if abs(adv - K0) > exact.time_tol(F(K0) / m["rate"], 2) * m["rate"]:
                ctx.violation(o, f"start_time advanced by a non-integer number of samples ({float(adv)!r})", None, dict(feats, what="start_frac"))
                return
        else:
            K0 = None
        per_chan = []
        for i in range(nch):
            si = shift[:, i]
            if si.min() != si.max():
                ctx.violation(o, f"channel {i}: samples are not a contiguous run of the input (shifts {int(si.min())}..{int(si.max())})",
                              None, dict(feats, what="non_uniform"))
                return
            per_chan.append(int(si.flat[0]))
        if tout.min() < 0 or tout.max() >= N:
            ctx.violation(o, "a returned sample has an out-of-range source", None, dict(feats, what="range"))
            return
        # source index of output sample at time T(k) in channel i must be k + K0 + round(d_i)
        if K0 is None:
            offs = {per_chan[i] - r for i in range(nch) for r in cands[i][:1]}
            K0c = [per_chan[0] - r for r in cands[0]]
        else:
            K0c = [K0]
        ok = False
        for K0_ in K0c:
            if all((per_chan[i] - K0_) in cands[i] for i in range(nch)):
                ok = True
        if not ok:
            i_bad = next((i for i in range(nch) if (per_chan[i] - K0c[0]) not in cands[i]), 0)
            ctx.violation(o, f"channel {i_bad} (label {float(labels[i_bad])!r} Hz): output sample stamped T comes from input time T + "
                             f"{per_chan[i_bad] - K0c[0]} samples, but round(delay) = {cands[i_bad]} (delay {float(d_exact[i_bad]):.4f} samples; "
                             f"start advanced by {K0c[0]} samples; all channels: observed {[p - K0c[0] for p in per_chan]}, expected {r_lo})",
                          {"dm": float(dmv), "ref": float(ref)}, dict(feats, what="wrong_shift"))
            return
        if tie:
            ctx.count("ambiguous[half_integer_delay]")
        ctx.count("nontrivial[incoherent]")


# ------------------------------------------------------------------------------------------------
def wl_delays(ctx, idx, rng):
    dmval = float(10 ** rng.uniform(-3, 3)) * gen.pick(rng, [1, -1])
    dm = make_dm(rng, dmval)
    unit = gen.pick(rng, [u.Hz, u.kHz, u.MHz, u.GHz])
    kind = idx % 6
    fs = np.sort(10 ** rng.uniform(7, 11, size=3))
    f1, f2, f3 = [(v * u.Hz).to(unit) for v in fs]
    desc = {"dm": str(dm), "kind": kind, "f": [float(v) for v in fs]}
    ctx.describe_case(desc)
    ctx.sample(desc)
    o = "delay_law"
    if kind == 0:
        arr = (10 ** rng.uniform(7, 11, size=int(rng.integers(1, 9))) * u.Hz).to(unit)
        ctx.call(o, dm.time_delay, arr, f2)
        ctx.call(o, dm.time_delay, f1, np.inf * u.MHz)
    elif kind == 1:
        a, _ = ctx.call(o, dm.time_delay, f1, f2)
        b, _ = ctx.call(o, dm.time_delay, f2, f1)
        if a is not None and b is not None:
            ctx.count("oracle[antisymmetry]")
            bound = float(oracles.delay_err_bound(oracles.dm_value(dm), F(float(fs[0])), F(float(fs[1])))) * 4
            if abs(a.to_value(u.s) + b.to_value(u.s)) > bound:
                ctx.violation(o, f"time_delay(f1,f2) + time_delay(f2,f1) = {a.to_value(u.s) + b.to_value(u.s)!r} s", None, {"what": "antisymmetry"})
    elif kind == 2:
        a, _ = ctx.call(o, dm.time_delay, f1, f3)
        b, _ = ctx.call(o, dm.time_delay, f1, f2)
        c, _ = ctx.call(o, dm.time_delay, f2, f3)
        if a is not None and b is not None and c is not None:
            ctx.count("oracle[additivity]")
            dmv = oracles.dm_value(dm)
            bound = float(sum(oracles.delay_err_bound(dmv, F(float(x)), F(float(y))) for x, y in ((fs[0], fs[2]), (fs[0], fs[1]), (fs[1], fs[2])))) * 4
            if abs(a.to_value(u.s) - b.to_value(u.s) - c.to_value(u.s)) > bound:
                ctx.violation(o, "time_delay is not additive along f1 -> f2 -> f3", None, {"what": "additivity"})
    elif kind == 3:
        sr = gen.rand_rate(rng, lo=0, hi=9)
        arr = (10 ** rng.uniform(7, 11, size=(2, 3)) * u.Hz).to(unit)
        ctx.call(o, dm.sample_delay, arr, f2, sr)
        ctx.call(o, dm.sample_delay, f1, f3, sr)
    elif kind == 5:
        # the reference is the array (delays of one frequency against a table of references), and outer broadcasts
        refs = (10 ** rng.uniform(7, 11, size=int(rng.integers(2, 6))) * u.Hz).to(unit)
        ctx.call(o, dm.time_delay, f1, refs)
        col = (10 ** rng.uniform(7, 11, size=(3, 1)) * u.Hz).to(unit)
        ctx.call(o, dm.time_delay, col, refs[None, :])
        ctx.call(o, dm.sample_delay, f2, refs, gen.rand_rate(rng, lo=0, hi=9))
    else:
        ctx.call(o, dm.time_delay, f1, f1)
        z, _ = ctx.call(o, dm.time_delay, f2, f2)
        if z is not None and z.to_value(u.s) != 0:
            ctx.violation(o, "time_delay(f, f) != 0", None, {"what": "self_delay"})
    ctx.bucket("delay", kind, str(dm.unit), str(unit), dmval > 0)


def wl_incoherent(ctx, idx, rng):
    clsname = gen.RADIO[idx % 5]
    if clsname == "DualPolarizationSignal" and False:
        pass
    nchan = int(gen.pick(rng, [1, 2, 3, 4, 5, 8, 16]))
    align = ["bottom", "center", "top"][(idx // 5) % 3]
    rk = (idx // 15) % 5
    n = int(rng.integers(1, 400))
    srhz = 10.0 ** rng.uniform(0, 6)
    rate = gen.pick(rng, [srhz * u.Hz, (srhz / 1e3) * u.kHz, (srhz / 1e6) * u.MHz])
    bw_hz = srhz if clsname in gen.BASEBAND else srhz * float(gen.pick(rng, [1, 2, 8]))
    fchz = max(10.0 ** rng.uniform(7.5, 9.5), bw_hz * nchan * 3)
    fc = gen.pick(rng, [fchz * u.Hz, (fchz / 1e6) * u.MHz, (fchz / 1e9) * u.GHz])
    extra = gen.pick(rng, [(), (), (4,), (2, 3)]) if clsname not in ("FullStokesSignal", "DualPolarizationSignal") else gen.pick(rng, [(), (3,)])
    start = gen.rand_time(rng, p_none=0.3)
    use_dask = rng.random() < 0.15
    dtype = (np.complex128 if rng.random() < 0.5 else np.complex64) if clsname in gen.BASEBAND else \
        (gen.pick(rng, [np.float64, np.float32]) if clsname != "RadioSignal" else gen.pick(rng, [np.float64, np.complex128, np.float32]))
    sig, desc = gen.make_signal(rng, clsname, n, nchan=nchan, extra=extra, dtype=dtype, rate=rate, fc=fc, align=align, start=start,
                                chan_bw=None if clsname in gen.BASEBAND else bw_hz * u.Hz, data_kind="coded", dask=use_dask)
    bw_tot = bw_hz * nchan
    per_dm = 4149.377593360996e12 * abs((fchz - bw_tot / 2) ** -2 - (fchz + bw_tot / 2) ** -2) * srhz + 1e-300
    r = rng.random()
    target = rng.uniform(0.3, max(1.0, n * 0.7)) if r < 0.85 else rng.uniform(n * 0.7, n * 2.5)
    dmval = float(target / per_dm) * gen.pick(rng, [1, 1, -1])
    dm = make_dm(rng, dmval)
    ref = [None, sig.min_freq, sig.max_freq, sig.center_freq + sig.chan_bw * float(rng.uniform(-nchan / 2, nchan / 2)),
           sig.center_freq * float(gen.pick(rng, [1.3, 0.75]))][rk]
    if ref is not None and rng.random() < 0.5:
        ref = ref.to(gen.pick(rng, [u.Hz, u.MHz, u.GHz]))
    desc.update(dm=str(dm), ref=None if ref is None else str(ref), ref_kind=rk, band_delay_samples=float(target))
    ctx.describe_case(desc)
    ctx.sample(desc)
    kw = {} if ref is None else {"ref_freq": ref}
    before = ctx.counters["incoherent_events"]
    try:
        out = pb.incoherent_dedispersion(sig, dm, **kw)
    except Exception:
        out = None
    if ctx.counters["incoherent_events"] == before:
        ctx.inconclusive_because("incoherent_dedispersion probe did not fire")
    if out is not None and len(out):
        ctx.bucket("incoh", clsname, nchan, align, rk, dmval > 0, start is None, "dask" if use_dask else "np")
    if rng.random() < 0.05:
        other, _ = gen.make_signal(rng, "Signal", 8)
        ctx.call("incoherent", pb.incoherent_dedispersion, other, dm, expect=TypeError, where="incoherent_dedispersion(Signal)")


def install_universal(ctx):
    DelayMonitor(ctx).install()
    IncoherentMonitor(ctx).install()
    return probes.detach_all


def workloads(ctx):
    q = ctx.tier == "quick"
    return [("R", 1, wl_R), ("delays", 1800 if q else 24000, wl_delays), ("incoherent", 6000 if q else 60000, wl_incoherent)]


def setup(ctx):
    DelayMonitor(ctx).install()
    IncoherentMonitor(ctx).install()
    return probes.detach_all


def finalize(ctx):
    for e in probes.monitor_errors():
        ctx.inconclusive_because("monitor error: " + e[:600])
    ctx.require("oracle[delay_law]", 1000, "delay law oracle")
    ctx.require("nontrivial[incoherent]", 300, "incoherent source-tracing oracle on non-empty outputs")
