"""C19 - real_to_complex is the exact analytic-baseband conversion along any axis."""

import math

import numpy as np
import pulsarbat as pb

from .. import gen, probes, refdft

from ..replay import wl_R

RULE = ("every real_to_complex call is judged per 1-d lane against a direct evaluation of the definition (one-sided spectrum weights, "
        "inverse DFT, mix by exp(-i pi n/2), keep even n) with the independent longdouble DFT matrix (N <= 384) / numpy.fft complex128, "
        "plus the identities (-1)^m Re(out[m]) = x[2m], tone w -> w - N/4, linearity, dtype and shape rules. Workload: N 0..65, 127, 128, "
        "511, 512, 1000, 4097, 65536, 131073 x rank 1-4 x every axis (+/- indexing) x dtypes {f4,f8,longdouble,f2,i2,i8,u1,bool} x "
        "inputs {noise, impulses, DC, Nyquist tone, tones}. Non-trivial = N >= 2; distinct = (N, rank, axis, dtype, input kind).")
ASSUMPTIONS = [
    "l2 tolerance per lane 64*eps*log2(N+2)*||x||_2, eps = 2^-23 for float32/float16 input (scipy.fft works in single precision there), 2^-52 otherwise; plus pi*N*2^-53 for the float64 evaluation of the mixing phasor exp(-i*pi/2*n)",
    "equivalence between axes is judged through the per-lane reference (not bitwise: pocketfft may vectorise lanes differently)",
]
BUDGET = {"quick": 100, "thorough": 1200}
LD = np.longdouble


def reference(x, axis):
    """Definition evaluated independently; complex128 result with time on `axis`."""
    x = np.asarray(x)
    xm = np.moveaxis(x, axis, 0)
    N = xm.shape[0]
    xr = xm.astype(LD)
    X = refdft.dft_ld(xr, axis=0)
    h = np.zeros(N)
    h[0] = 1
    npos = (N - 1) // 2                 # number of strictly positive, non-Nyquist frequencies
    h[1:1 + npos] = 2
    if N % 2 == 0 and N > 1:
        h[N // 2] = 1                   # Nyquist bin shared between positive and negative frequencies
    Xh = X * h.reshape((N,) + (1,) * (xm.ndim - 1))
    a = refdft.dft_ld(Xh, axis=0, inverse=True)
    n = np.arange(N)
    mix = np.array([1, -1j, -1, 1j])[n % 4].reshape((N,) + (1,) * (xm.ndim - 1))     # exp(-i pi n / 2) exactly
    out = (a * mix)[::2]
    return np.moveaxis(np.asarray(out, dtype=np.complex128), 0, axis)


class R2CMonitor:
    def __init__(self, ctx, oracle="real_to_complex"):
        self.ctx, self.o = ctx, oracle

    def install(self):
        probes.attach(pb.utils, "real_to_complex", self, "real_to_complex")
        return self

    def pre(self, point, args, kwargs):
        z = args[0] if args else kwargs.get("z")
        try:
            return np.array(z, copy=True)
        except Exception:
            return None

    def post(self, point, args, kwargs, x, out, exc):
        ctx, o = self.ctx, self.o
        if x is None:
            return
        axis = args[1] if len(args) > 1 else kwargs.get("axis", 0)
        ctx.count("r2c_events")
        if np.iscomplexobj(x):
            ctx.count("oracle[r2c_refusal]")
            if exc is None or not isinstance(exc, ValueError):
                ctx.violation(o, f"complex input was not refused with ValueError (got {type(exc).__name__ if exc else 'a result'})", None,
                              {"what": "complex_accepted"})
            return
        if x.ndim == 0:
            return
        feats = {"dtype": str(x.dtype), "ndim": x.ndim, "axis": int(axis)}
        if exc is not None:
            if -x.ndim <= axis < x.ndim and x.dtype.kind in "fiub":
                ctx.unexpected_exception(o, exc, f"real_to_complex(shape {x.shape}, {x.dtype}, axis={axis})", feats)
            return
        ctx.count("oracle[r2c]")
        N = x.shape[axis]
        want_dtype = np.complex64 if x.dtype == np.float32 else np.complex128
        want_shape = list(x.shape)
        want_shape[axis] = (N + 1) // 2
        if not isinstance(out, np.ndarray) or out.dtype != want_dtype:
            ctx.violation(o, f"result dtype {getattr(out, 'dtype', type(out))} for {x.dtype} input, expected {np.dtype(want_dtype)}", None,
                          dict(feats, what="dtype"))
            return
        if list(out.shape) != want_shape:
            ctx.violation(o, f"input shape {x.shape}, axis {axis}: result shape {out.shape}, expected {tuple(want_shape)} "
                             f"(ceil(N/2) samples along the converted axis, other axes unchanged)", None, dict(feats, what="shape"))
            return
        if N == 0 or out.size == 0:
            return
        if x.size > 1 << 21 or not np.all(np.isfinite(x.astype(np.float64))):
            ctx.count("skipped")
            return
        ref = reference(x, axis)
        om = np.moveaxis(out, axis, 0).reshape(out.shape[axis], -1).astype(np.complex128)
        rm = np.moveaxis(ref, axis, 0).reshape(out.shape[axis], -1)
        xm = np.moveaxis(x, axis, 0).reshape(N, -1).astype(np.float64)
        norm = np.sqrt(np.sum(xm ** 2, axis=0))
        # working precision: single for float32 (and float16, which scipy.fft promotes to float32), double otherwise
        eps = 2.0 ** -23 if x.dtype in (np.float32, np.float16) else 2.0 ** -52
        # + float64 evaluation of the documented mixing phasor exp(-i*pi/2*n): phase error <= pi*n*2^-53
        tol = (64 * eps * math.log2(N + 2) + math.pi * N * 2.0 ** -53) * norm + 1e-300
        l2 = np.sqrt(np.sum(np.abs(om - rm) ** 2, axis=0))
        ctx.stat_max(f"r2c_l2err_over_tol[{np.dtype(want_dtype).name}]", float(np.max(l2 / tol)))
        if np.any(l2 > tol):
            j = int(np.argmax(l2 / tol))
            ctx.violation(o, f"lane {j} (N={N}, {x.dtype}, shape {x.shape}, axis {axis}): result differs from the analytic-baseband "
                             f"definition: l2 error {l2[j]:.3e} > tol {tol[j]:.3e} (= {l2[j] / (norm[j] + 1e-300):.3e} ||x||_2)", None,
                          dict(feats, what="value", long=N > 5000))
            return
        # identity: (-1)^m Re(out[m]) = x[2m]
        sgn = np.where(np.arange(om.shape[0]) % 2, -1.0, 1.0)[:, None]
        d = np.abs(sgn * om.real - xm[::2])
        if np.any(np.sqrt(np.sum(d ** 2, axis=0)) > tol):
            ctx.violation(o, "(-1)^m Re(out[m]) != x[2m]", None, dict(feats, what="real_part_identity"))
        if N >= 2:
            ctx.count("nontrivial[r2c]")


NS = list(range(0, 66)) + [127, 128, 511, 512, 1000, 4097]
DTYPES = [np.float32, np.float64, np.longdouble, np.float16, np.int16, np.int64, np.uint8, np.bool_]
KINDS = ["noise", "impulse", "dc", "nyquist", "tone", "two_tones"]


def make_input(rng, shape, axis, dtype, kind):
    N = shape[axis]
    n = np.arange(N).reshape([N if i == axis % len(shape) else 1 for i in range(len(shape))])
    if kind == "noise":
        x = rng.standard_normal(shape)
    elif kind == "impulse":
        x = np.zeros(shape)
        if N:
            idx = [slice(None)] * len(shape)
            idx[axis] = int(rng.integers(N))
            x[tuple(idx)] = 1.0
    elif kind == "dc":
        x = np.ones(shape) * rng.uniform(0.5, 2)
    elif kind == "nyquist":
        x = np.broadcast_to(np.where(n % 2, -1.0, 1.0), shape).copy()
    elif kind == "tone":
        w = rng.integers(0, max(1, N // 2 + 1))
        x = np.broadcast_to(np.cos(2 * np.pi * w * n / max(N, 1) + rng.uniform(0, 6)), shape).copy()
    else:
        w1, w2 = rng.uniform(0, max(N, 1) / 2, size=2)
        x = np.broadcast_to(np.cos(2 * np.pi * w1 * n / max(N, 1)) + 0.5 * np.sin(2 * np.pi * w2 * n / max(N, 1)), shape) + 0.01 * rng.standard_normal(shape)
    dt = np.dtype(dtype)
    if dt.kind in "iu":
        x = np.round(x * 50 + (60 if dt.kind == "u" else 0))
    if dt.kind == "b":
        x = x > 0
    return np.asarray(x).astype(dt)


def wl_r2c(ctx, idx, rng):
    big = ctx.tier == "thorough"
    N = NS[idx % len(NS)]
    dtype = DTYPES[(idx // len(NS)) % len(DTYPES)]
    kind = KINDS[(idx // (len(NS) * len(DTYPES))) % len(KINDS)]
    rank = int(rng.integers(1, 5)) if N <= 512 else int(rng.integers(1, 3))
    axis = int(rng.integers(-rank, rank))
    shape = [int(rng.integers(1, 4)) for _ in range(rank)]
    if rank > 1 and rng.random() < 0.08:
        # an empty axis other than the converted one (e.g. every channel masked away): only the shape/dtype rules can be judged
        shape[int(rng.integers(rank))] = 0
    shape[axis] = N
    x = make_input(rng, tuple(shape), axis, dtype, kind)
    if rng.random() < 0.3 and x.ndim > 1:
        x = np.asfortranarray(x)
    desc = {"shape": list(x.shape), "axis": axis, "dtype": str(np.dtype(dtype)), "kind": kind}
    ctx.describe_case(desc)
    ctx.sample(desc)
    before = ctx.counters["r2c_events"]
    kw = {} if (axis == 0 and rng.random() < 0.5) else {"axis": axis}
    out, exc = ctx.call("real_to_complex", pb.utils.real_to_complex, x, **kw)
    if ctx.counters["r2c_events"] == before:
        ctx.inconclusive_because("real_to_complex probe did not fire")
    if exc is None and N >= 2:
        ctx.bucket(N, rank, axis, np.dtype(dtype).name, kind)
    # linearity (judged on the outputs directly)
    if exc is None and N >= 2 and np.dtype(dtype).kind == "f" and rng.random() < 0.3:
        y = make_input(rng, tuple(shape), axis, dtype, "noise")
        a, b = 0.5, -2.0
        with probes.quiet():
            o1 = pb.utils.real_to_complex(x, **kw)
            o2 = pb.utils.real_to_complex(y, **kw)
            o3 = pb.utils.real_to_complex((a * x.astype(np.float64) + b * y.astype(np.float64)).astype(dtype), **kw)
        ctx.count("oracle[linearity]")
        eps = 2.0 ** -23 if np.dtype(dtype) == np.float32 else (2.0 ** -10 if np.dtype(dtype) == np.float16 else 2.0 ** -52)
        scale = np.sqrt(np.sum(np.abs(x.astype(np.float64)) ** 2) + np.sum(np.abs(y.astype(np.float64)) ** 2)) + 1e-300
        if np.sqrt(np.sum(np.abs(o3 - (a * o1 + b * o2)) ** 2)) > 64 * eps * (1 + math.log2(N + 2)) * scale * 3:
            ctx.violation("real_to_complex", "real_to_complex is not linear", None, {"what": "linearity"})
    # refusal of complex input
    if rng.random() < 0.05:
        ctx.call("real_to_complex", pb.utils.real_to_complex, x.astype(np.complex128), expect=ValueError, where="real_to_complex(complex)")
        ctx.call("real_to_complex", pb.utils.real_to_complex, x.astype(np.complex64), expect=ValueError, where="real_to_complex(complex64)")
        # complex input must be refused whatever its shape, also when the converted axis is empty
        for shp, ax in (((0,), 0), ((0, 4, 2), 0), ((3, 0), 1), ((3, 0), -1), ((2, 0, 2), 1)):
            ctx.call("real_to_complex", pb.utils.real_to_complex, np.zeros(shp, dtype=gen.pick(rng, [np.complex64, np.complex128])), axis=ax,
                     expect=ValueError, where=f"real_to_complex(complex, shape {shp}, axis {ax})")


def wl_long(ctx, idx, rng):
    """Long float32/float64 conversions (the lengths readers deliver)."""
    N = int(gen.pick(rng, [65536, 131073, 100000, 32768 + 1]))
    dtype = gen.pick(rng, [np.float32, np.float32, np.float64])
    shape = (N,) if rng.random() < 0.6 else (N, 2)
    x = make_input(rng, shape, 0, dtype, gen.pick(rng, ["noise", "tone", "two_tones"]))
    desc = {"shape": list(shape), "axis": 0, "dtype": str(np.dtype(dtype)), "kind": "long"}
    ctx.describe_case(desc)
    ctx.sample(desc, limit=2)
    out, exc = ctx.call("real_to_complex", pb.utils.real_to_complex, x)
    if exc is None:
        ctx.bucket("long", N, np.dtype(dtype).name, len(shape))
        # tone mapping w -> w - N/4 on an exact-bin tone
        w = int(rng.integers(N // 8, N // 2 - 8))
        n = np.arange(N)
        tone = np.cos(2 * np.pi * w * n / N).astype(dtype)
        with probes.quiet():
            ot = pb.utils.real_to_complex(tone)
        M = len(ot)
        spec = np.abs(np.fft.fft(ot.astype(np.complex128)))
        peak = int(np.argmax(spec))
        # the M = ceil(N/2) output samples span the same time as the N input samples, so a tone of (w - N/4) cycles per
        # N input samples sits at bin (w - N/4) of the length-M DFT
        want_bin = w - N / 4
        pk = peak if peak <= M // 2 else peak - M
        ctx.count("oracle[tone_map]")
        if abs(pk - want_bin) > 1.0:
            ctx.violation("real_to_complex", f"real tone at bin {w} of N={N} maps to bin {pk} of the output, expected {want_bin:.1f} (w - N/4)",
                          None, {"what": "tone_map"})


def install_universal(ctx):
    R2CMonitor(ctx).install()
    return probes.detach_all


def wl_reader(ctx, idx, rng):
    """The same conversion through its second public entry point: a reader of real-sampled data hands back the analytic baseband
    of the whole stretch it was asked for (not of the file's frames one by one)."""
    import os
    import baseband
    from ..core import REPO
    path = os.path.join(REPO, "tests", "data", "sample.vdif")
    with probes.quiet():
        r = pb.readers.BasebandReader(path, lower_sideband=bool(idx % 2))
    L = len(r)
    n = int(gen.pick(rng, [1, 2, 3, 16, 1000, 10001, 12000, 15000, L]))
    off = int(rng.integers(0, L - n + 1))
    how = "dask_read" if idx % 4 >= 2 else "read"
    ctx.describe_case({"reader": "sample.vdif", "offset": off, "n": n, "how": how, "lsb": bool(idx % 2)})
    sg, exc = ctx.call("real_to_complex", getattr(r, how), off, n, where=f"BasebandReader.{how}({off}, {n})")
    if exc is not None:
        return
    with baseband.open(path, "rs") as fh:
        fh.seek(2 * off)
        raw = fh.read(2 * n)
    want = reference(raw.astype(np.float64), 0)
    if idx % 2:
        want = want.conj()
    with probes.quiet():
        got = gen.np_data(sg).astype(np.complex128)
    ctx.count("oracle[reader_r2c]")
    if got.shape != want.shape:
        ctx.violation("real_to_complex", f"reader returned shape {got.shape}, expected {want.shape}", None, {"what": "reader_shape"})
        return
    nrm = float(np.sqrt(np.sum(np.abs(raw.astype(np.float64)) ** 2))) + 1e-300
    err = float(np.sqrt(np.sum(np.abs(got - want) ** 2)))
    tol = 2.0 ** -19 * (1 + math.log2(2 * n + 2) / 8) * nrm
    ctx.stat_max("reader_err_over_tol", err / tol)
    if err > tol:
        ctx.violation("real_to_complex", f"BasebandReader.{how}({off}, {n}) of real-sampled data differs from the analytic baseband of raw samples "
                                         f"[{2 * off}:{2 * off + 2 * n}]: l2 error {err:.3e} > tol {tol:.3e} (= {err / nrm:.3e} ||x||_2)", None,
                      {"what": "reader_value", "n_over_frame": n > 10000})
    ctx.bucket("reader", n, how, idx % 2)
    del r
    import gc
    gc.collect()


def workloads(ctx):
    q = ctx.tier == "quick"
    return [("R", 1, wl_R), ("r2c", 1200 if q else 40000, wl_r2c), ("long", 24 if q else 480, wl_long), ("reader", 24 if q else 240, wl_reader)]


def setup(ctx):
    R2CMonitor(ctx).install()
    return probes.detach_all


def finalize(ctx):
    for e in probes.monitor_errors():
        ctx.inconclusive_because("monitor error: " + e[:600])
    ctx.require("oracle[r2c]", 500, "real_to_complex definition oracle")
    ctx.require("oracle[tone_map]", 5, "tone mapping")
