"""sys.monitoring based instrumentation that needs no source edit:

* failpoints      - raise InjectedFault at the k-th statement boundary executed inside pulsarbat code
                    during one library call (crash-point enumeration),
* yield injection - time.sleep(0) with seeded probability at statement boundaries of pulsarbat code in
                    worker threads (places where CPython may switch threads anyway),
* reach witness   - hit counts of the executed lines of chosen pulsarbat files.

Only code objects whose file lies under <repo>/pulsarbat are instrumented (others return DISABLE).
"""

import os
import sys
import threading
import time
import random

TOOL = 3
mon = sys.monitoring


class InjectedFault(Exception):
    """Raised by a failpoint inside library code."""


class LineTool:
    def __init__(self, repo):
        self.prefix = os.path.realpath(os.path.join(repo, "pulsarbat")) + os.sep
        self.active = False
        self.count = 0
        self.target = None
        self.fired_at = None
        self.yield_p = 0.0
        self.yield_rng = random.Random(0)
        self.yields = 0
        self.main_thread = threading.main_thread()
        self.only_threads = None      # None = any thread ; "workers" = non-main only
        self.reach = None             # dict (file, line) -> hits, or None
        self.counting = False
        self.lock = threading.Lock()
        self._is_repo = {}

    # ------------------------------------------------------------------ lifecycle
    def start(self):
        if self.active:
            return
        try:
            mon.use_tool_id(TOOL, "pbmon")
        except ValueError:
            mon.free_tool_id(TOOL)
            mon.use_tool_id(TOOL, "pbmon")
        mon.register_callback(TOOL, mon.events.LINE, self._line)
        mon.set_events(TOOL, mon.events.LINE)
        self.active = True

    def stop(self):
        if not self.active:
            return
        mon.set_events(TOOL, 0)
        mon.register_callback(TOOL, mon.events.LINE, None)
        mon.free_tool_id(TOOL)
        self.active = False

    # ------------------------------------------------------------------ callback
    def _line(self, code, line):
        fn = code.co_filename
        ok = self._is_repo.get(fn)
        if ok is None:
            ok = self._is_repo[fn] = os.path.realpath(fn).startswith(self.prefix)
        if not ok:
            return mon.DISABLE
        if self.reach is not None:
            key = (fn, line)
            self.reach[key] = self.reach.get(key, 0) + 1
        if self.only_threads == "workers" and threading.current_thread() is self.main_thread:
            return None
        if self.counting:
            with self.lock:
                self.count += 1
                c = self.count
            if self.target is not None and c == self.target:
                self.fired_at = (os.path.relpath(fn, self.prefix), line, code.co_name)
                self.target = None
                raise InjectedFault(f"injected at {self.fired_at}")
        if self.yield_p > 0.0:
            with self.lock:
                r = self.yield_rng.random()
            if r < self.yield_p:
                self.yields += 1
                time.sleep(0)
        return None

    # ------------------------------------------------------------------ failpoints
    def count_call(self, fn):
        """Run fn() counting statement boundaries in pulsarbat code; returns (K, result, exc)."""
        self.start()
        mon.restart_events()
        self.count, self.target, self.counting = 0, None, True
        res = exc = None
        try:
            res = fn()
        except BaseException as e:  # noqa
            exc = e
        finally:
            self.counting = False
        return self.count, res, exc

    def fault_call(self, fn, k):
        """Run fn() raising InjectedFault at the k-th statement boundary; returns (result, exc, fired_at)."""
        self.start()
        self.count, self.target, self.counting, self.fired_at = 0, int(k), True, None
        res = exc = None
        try:
            res = fn()
        except BaseException as e:  # noqa
            exc = e
        finally:
            self.counting = False
            self.target = None
        return res, exc, self.fired_at

    # ------------------------------------------------------------------ yields
    def set_yield(self, p, seed=0, only_workers=True):
        self.start()
        self.yield_p = float(p)
        self.yield_rng = random.Random(seed)
        self.only_threads = "workers" if only_workers else None
        self.yields = 0

    def clear_yield(self):
        self.yield_p = 0.0
        self.only_threads = None

    # ------------------------------------------------------------------ reach witness
    def start_reach(self):
        self.start()
        mon.restart_events()
        self.reach = {}

    def stop_reach(self):
        r, self.reach = self.reach, None
        if not self.counting and self.yield_p == 0.0:
            self.stop()         # no line events until a failpoint / yield phase asks for them again (they cost 3-4x otherwise)
        out = {}
        for (fn, line), n in (r or {}).items():
            out.setdefault(os.path.relpath(fn, self.prefix), {})[line] = n
        return out


_tool = None


def tool(repo=None):
    global _tool
    if _tool is None:
        from .core import REPO
        _tool = LineTool(repo or REPO)
    return _tool


PINNED = "d827ade"      # the commit the properties' anchors (file:line ranges) refer to


def line_map(repo, relpath):
    """Map line numbers of the pinned source to the current working tree (difflib on the two texts); identity if unavailable."""
    import difflib
    import subprocess
    try:
        old = subprocess.run(["git", "-C", repo, "show", f"{PINNED}:{relpath}"], capture_output=True, text=True, timeout=20)
        if old.returncode != 0:
            return None
        a = old.stdout.splitlines()
        with open(os.path.join(repo, relpath)) as fh:
            b = fh.read().splitlines()
    except Exception:
        return None
    m = {}
    for tag, i1, i2, j1, j2 in difflib.SequenceMatcher(None, a, b, autojunk=False).get_opcodes():
        if tag == "equal":
            for k in range(i2 - i1):
                m[i1 + k + 1] = j1 + k + 1
        elif tag == "replace":
            for k in range(i2 - i1):
                m[i1 + k + 1] = min(j1 + k, j2 - 1) + 1 if j2 > j1 else None
    return m


def anchor_hits(reach, anchors, repo=None):
    """reach: {relfile: {line: hits}} ; anchors: list of 'pulsarbat/x.py:a-b[, c-d]' strings -> summary dict.

    Anchor line numbers refer to the pinned source; they are mapped onto the current tree first."""
    out = {}
    maps = {}
    for a in anchors:
        if ":" not in a:
            continue
        f, spans = a.split(":", 1)
        rel = f.split("pulsarbat/", 1)[-1]
        lines = reach.get(rel, {})
        tot_lines, hit_lines, hits = 0, 0, 0
        for sp in spans.split(","):
            sp = sp.strip().split(";")[0]
            try:
                lo, _, hi = sp.partition("-")
                lo, hi = int(lo), int(hi or lo)
            except ValueError:
                continue
            if repo is not None and f not in maps:
                maps[f] = line_map(repo, f)
            mp = maps.get(f)
            for ln0 in range(lo, hi + 1):
                ln = mp.get(ln0) if mp else ln0
                if ln is not None and ln in lines:
                    hit_lines += 1
                    hits += lines[ln]
            tot_lines += hi - lo + 1
        out[a] = {"lines_in_range": tot_lines, "lines_executed": hit_lines, "hits": hits}
    return out
