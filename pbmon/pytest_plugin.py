"""Workload R: the repository's own test-suite replayed under a property's universal monitors.

Used as ``pytest -p pbmon.pytest_plugin`` with the environment variables

    PBMON_R_PROP   property id whose module provides ``install_universal(ctx)``
    PBMON_R_OUT    file that receives the monitor state (json) at session end
    VERIF_SEED     seed (only recorded)

The test outcomes themselves are irrelevant here (some tests fail in this environment); what
counts is what the monitors observe while the tests drive the library.
"""

import importlib
import json
import os

_ctx = None
_teardown = None


def pytest_configure(config):
    global _ctx, _teardown
    prop = os.environ.get("PBMON_R_PROP")
    if not prop:
        return
    from pbmon.core import Ctx
    _ctx = Ctx(prop, tier=os.environ.get("VERIF_TIER", "quick"), seed=int(os.environ.get("VERIF_SEED", "0")))
    _ctx.set_case("R", 0, {"workload": "repository test-suite under monitors"})
    mod = importlib.import_module(f"pbmon.props.{prop}")
    _teardown = mod.install_universal(_ctx)


def pytest_runtest_setup(item):
    if _ctx is not None:
        _ctx.set_case("R", 0, {"test": item.nodeid})
        _ctx.count("R_tests_started")


def pytest_sessionfinish(session, exitstatus):
    if _ctx is None:
        return
    from pbmon import probes
    for e in probes.monitor_errors():
        _ctx.inconclusive_because("monitor error during workload R: " + e[:500])
    if _teardown:
        try:
            _teardown()
        except Exception:
            pass
    out = os.environ.get("PBMON_R_OUT")
    if out:
        st = _ctx.state()
        st["evaluations"] = _ctx.counters.get("R_tests_started", 0)
        with open(out, "w") as fh:
            json.dump(st, fh)
