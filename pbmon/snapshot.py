"""Byte-exact snapshots of call arguments (signals, arrays, Quantities, Times, containers) for C14."""

import copy
import hashlib

import numpy as np
import astropy.units as u
from astropy.time import Time
import dask.array as da
import pulsarbat as pb

ATTRS = ("sample_rate", "start_time", "center_freq", "chan_bw", "freq_align", "pol_type")


def _arr(a):
    a = np.asarray(a)
    if a.dtype == object:
        return ("object-array", a.shape, repr(a.tolist())[:200])
    if a.dtype.fields:
        raw = a.tobytes()
    else:
        raw = a.tobytes()
    return ("ndarray", a.shape, str(a.dtype), a.strides if a.size else (), hashlib.blake2b(raw, digest_size=16).hexdigest())


def snap(obj, depth=0):
    """Return a hashable-ish structure capturing the observable state of obj (None for things we do not track)."""
    if depth > 4:
        return ("deep",)
    if isinstance(obj, pb.Signal):
        d = obj.__dict__.get("_data", None)
        out = {"kind": "signal", "cls": type(obj).__name__, "data_id": id(d)}
        if isinstance(d, da.Array):
            out["data"] = ("dask", d.name, d.chunks, str(d.dtype))
        elif isinstance(d, np.ndarray):
            out["data"] = _arr(d.view(np.ndarray))
            out["writeable"] = bool(d.flags.writeable)
            out["is_quantity"] = isinstance(d, u.Quantity)
        else:
            out["data"] = ("other", type(d).__name__)
        for k in ATTRS:
            if hasattr(obj, "_" + k):
                out[k] = snap(getattr(obj, "_" + k), depth + 1)
        m = obj.__dict__.get("_meta", None)
        out["meta"] = None if m is None else (id(m), copy.deepcopy(m))
        return out
    if isinstance(obj, Time):
        return ("time", obj.scale, obj.format, _arr(obj.jd1), _arr(obj.jd2))
    if isinstance(obj, u.Quantity):
        v = obj.view(np.ndarray)
        return ("quantity", type(obj).__name__, str(obj.unit), _arr(v), bool(getattr(obj, "imaginary", False)))
    if isinstance(obj, np.ndarray):
        return _arr(obj)
    if isinstance(obj, da.Array):
        return ("dask", obj.name, obj.chunks, str(obj.dtype))
    if isinstance(obj, (list, tuple)):
        return (type(obj).__name__, tuple(snap(o, depth + 1) for o in obj))
    if isinstance(obj, dict):
        return ("dict", tuple((k, snap(v, depth + 1)) for k, v in obj.items()))
    if isinstance(obj, (int, float, complex, str, bytes, bool, type(None), np.generic)):
        return ("scalar", repr(obj))
    if isinstance(obj, slice):
        return ("slice", obj.start, obj.stop, obj.step)
    return ("untracked", type(obj).__name__)


def describe_diff(a, b, path="arg"):
    """First difference between two snapshots as text (None if equal)."""
    if type(a) is not type(b):
        return f"{path}: snapshot type changed"
    if isinstance(a, dict):
        for k in a:
            if k == "meta":
                ma, mb = a[k], b.get(k)
                if (ma is None) != (mb is None):
                    return f"{path}.meta: None-ness changed"
                if ma is not None and ma[1] != mb[1]:
                    return f"{path}.meta: contents changed {ma[1]!r} -> {mb[1]!r}"
                continue
            if k not in b:
                return f"{path}.{k}: disappeared"
            d = describe_diff(a[k], b[k], f"{path}.{k}")
            if d:
                return d
        return None
    if isinstance(a, tuple):
        if len(a) != len(b):
            return f"{path}: length changed"
        for i, (x, y) in enumerate(zip(a, b)):
            if isinstance(x, (tuple, dict)):
                d = describe_diff(x, y, f"{path}[{i}]")
                if d:
                    return d
            elif x != y:
                tag = a[0] if isinstance(a[0], str) else ""
                if tag == "ndarray" and i == 4:
                    return f"{path}: array bytes changed"
                return f"{path}: {tag} field {i} changed {x!r} -> {y!r}"
        return None
    if a != b:
        return f"{path}: {a!r} -> {b!r}"
    return None
