"""Seeded, stratified signal factory shared by all workloads."""

import numpy as np
import astropy.units as u
from astropy.time import Time
import dask.array as da
import pulsarbat as pb

CLASS_NAMES = ["Signal", "RadioSignal", "IntensitySignal", "FullStokesSignal",
               "BasebandSignal", "DualPolarizationSignal"]
RADIO = CLASS_NAMES[1:]
BASEBAND = ["BasebandSignal", "DualPolarizationSignal"]


def cls_of(name):
    return getattr(pb, name)


FREQ_UNITS = [u.Hz, u.kHz, u.MHz, u.GHz, 1 / u.s]
SCALES = ["utc", "utc", "tai", "tt", "tdb", "ut1"]


def pick(rng, seq):
    return seq[int(rng.integers(len(seq)))]


def rand_time(rng, allow_none=True, p_none=0.25):
    """A scalar start time well away from any leap second (2017-01-01 is the last one)."""
    if allow_none and rng.random() < p_none:
        return None
    scale = pick(rng, ["utc", "utc", "utc", "tai", "tt"])
    mjd_day = int(rng.integers(58200, 63000))       # 2018 .. 2031
    if _side_rng(rng).random() < 0.05:
        # a UTC day that ends in a leap second (86401 s long): 2016-12-31 or 2015-06-30, often in its last minutes
        srng = _side_rng(rng)
        day = int(srng.choice([57753, 57203]))
        frac = float(srng.choice([srng.random(), 1.0 - 10.0 ** srng.uniform(-6, -2)]))
        rng.integers(4), rng.random()       # keep the main stream in step with the ordinary branch as far as possible
        return Time(day, frac, format="mjd", scale="utc", precision=9)
    kind = rng.integers(4)
    if kind == 0:
        frac = 0.0
    elif kind == 1:
        frac = float(rng.integers(0, 86400)) / 86400.0
    else:
        frac = float(rng.random())
    return Time(mjd_day, frac, format="mjd", scale=scale, precision=9)


def rand_rate(rng, lo=-3.0, hi=9.6, decade=None):
    """A sample rate Quantity: value over many decades, in a random frequency unit."""
    if decade is None:
        e = rng.uniform(lo, hi)
    else:
        e = decade + rng.uniform(0, 1)
    kind = rng.integers(3)
    hzval = 10.0 ** e
    if kind == 0:  # round number
        hzval = float(f"{hzval:.2g}")
    unit = pick(rng, FREQ_UNITS)
    val = (hzval * u.Hz).to_value(unit)
    return val * unit


def rand_freq(rng, lo_hz, hi_hz):
    e = rng.uniform(np.log10(lo_hz), np.log10(hi_hz))
    unit = pick(rng, FREQ_UNITS[:4])
    return ((10.0 ** e) * u.Hz).to(unit)


def rand_data(rng, shape, dtype, kind="normal"):
    dtype = np.dtype(dtype)
    n = int(np.prod(shape)) if len(shape) else 1
    if kind == "coded":
        # value encodes (time index, flat sample index) exactly: t * 1024 + s  (+ 0.25j for complex)
        t = np.arange(shape[0], dtype=np.float64).reshape((-1,) + (1,) * (len(shape) - 1))
        s = np.arange(int(np.prod(shape[1:])) if len(shape) > 1 else 1, dtype=np.float64).reshape((1,) + tuple(shape[1:]))
        x = t * 1024.0 + s
        if dtype.kind == "c":
            x = x + 1j * (x % 7.0 + 0.25)
        return x.astype(dtype)
    if dtype.kind == "c":
        x = rng.standard_normal(shape) + 1j * rng.standard_normal(shape)
    elif dtype.kind == "f":
        x = rng.standard_normal(shape)
    elif dtype.kind in "iu":
        x = rng.integers(0, 100, size=shape)
    elif dtype.kind == "b":
        x = rng.integers(0, 2, size=shape)
    else:
        raise ValueError(dtype)
    return np.asarray(x).astype(dtype)


def layout(rng, x, kind=None):
    """Return an equal-valued array with a different memory layout (writable NumPy buffer)."""
    kind = kind if kind is not None else pick(rng, ["C", "C", "F", "strided", "neg", "offset"])
    if kind == "C" or x.ndim == 0 or x.size == 0:
        return np.ascontiguousarray(x).copy(), "C"
    if kind == "F":
        return np.asfortranarray(x).copy(order="F"), "F"
    if kind == "transposed" and x.ndim >= 3:
        # stored with the last two axes exchanged and handed over as a transposed view (what GUPPIRawReader does)
        big = np.ascontiguousarray(np.swapaxes(x, -1, -2)).copy()
        return np.swapaxes(big, -1, -2), "transposed"
    if kind == "readonly":
        y = np.ascontiguousarray(x).copy()
        y.flags.writeable = False          # e.g. np.frombuffer / a read-only memory map
        return y, "readonly"
    if kind == "strided":
        big = np.zeros((x.shape[0] * 2,) + x.shape[1:], dtype=x.dtype)
        big[::2] = x
        return big[::2], "strided"
    if kind == "neg":
        big = x[::-1].copy()
        return big[::-1], "neg"
    if kind == "offset" and x.ndim >= 2:
        big = np.zeros((x.shape[0], x.shape[1] + 3) + x.shape[2:], dtype=x.dtype)
        big[:, 2:2 + x.shape[1]] = x
        return big[:, 2:2 + x.shape[1]], "offset"
    return x.copy(), "C"


def rand_chunks(rng, shape, time_chunked=False):
    """Random chunking: time axis single chunk unless time_chunked; other axes anything."""
    chunks = []
    for ax, n in enumerate(shape):
        if ax == 0 and not time_chunked:
            chunks.append((n,))
            continue
        if n == 0:
            chunks.append((0,))
            continue
        mode = rng.integers(3)
        if mode == 0:
            chunks.append((n,))
        elif mode == 1:
            chunks.append((1,) * n if n <= 64 else (n,))
        else:
            parts = []
            left = n
            while left > 0:
                c = int(rng.integers(1, left + 1))
                parts.append(c)
                left -= c
            chunks.append(tuple(parts))
    return tuple(chunks)


def default_dtype(rng, clsname):
    if clsname in BASEBAND:
        return pick(rng, [np.complex128, np.complex64])
    if clsname in ("IntensitySignal", "FullStokesSignal"):
        return pick(rng, [np.float64, np.float32])
    return pick(rng, [np.float64, np.float32, np.complex128, np.complex64])


def sample_shape_for(rng, clsname, nchan=None, extra=None):
    if clsname == "Signal":
        if extra is not None:
            return tuple(extra)
        r = rng.integers(4)
        return tuple(int(rng.integers(1, 4)) for _ in range(r))
    nchan = int(nchan if nchan is not None else rng.integers(1, 6))
    if extra is None:
        r = rng.integers(3)
        extra = tuple(int(rng.integers(1, 4)) for _ in range(r)) if r else ()
    if clsname == "FullStokesSignal":
        return (nchan, 4) + tuple(extra)
    if clsname == "DualPolarizationSignal":
        return (nchan, 2) + tuple(extra)
    return (nchan,) + tuple(extra)


AGING = True


def _side_rng(rng):
    """A generator derived from (not advancing) the state of ``rng``."""
    st = rng.bit_generator.state["state"]
    return np.random.default_rng([int(st["state"]) % (1 << 63), int(st["inc"]) % (1 << 63), 77])


def _aged(cls, clsname, xin, kw, srng):
    """The same signal reached by another history: built with other attribute values, every derived public attribute read once
    (so anything the object memoises has been computed), then brought to the wanted values through the public setters."""
    from . import probes
    with probes.quiet():
        decoy = dict(kw)
        k = float(srng.choice([2.0, 0.25, 3.0]))
        decoy["sample_rate"] = kw["sample_rate"] * k
        if kw.get("start_time") is not None:
            decoy["start_time"] = kw["start_time"] + float(srng.uniform(-5, 5)) * u.s if srng.random() < 0.8 else None
        if "chan_bw" in decoy:
            decoy["chan_bw"] = kw["chan_bw"] * float(srng.choice([2.0, 0.5]))
        if "center_freq" in decoy:
            bw = decoy.get("chan_bw", decoy["sample_rate"])
            decoy["center_freq"] = kw["center_freq"] + int(srng.integers(1, 9)) * bw
            decoy["freq_align"] = {"bottom": "top", "top": "center", "center": "bottom"}[kw["freq_align"]]
        if "pol_type" in decoy:
            decoy["pol_type"] = "circular" if kw["pol_type"] == "linear" else "linear"
        sig = cls(xin, **decoy)
        for name in ("dt", "time_length", "stop_time", "shape", "sample_shape", "axes_labels", "nchan", "bandwidth", "max_freq", "min_freq",
                     "channel_freqs", "freq_align", "center_freq", "chan_bw", "pol_type", "meta", "dtype", "ndim"):
            try:
                getattr(sig, name)
            except AttributeError:
                pass
        repr(sig)
        str(sig)
        names = [n for n in ("sample_rate", "start_time", "chan_bw", "center_freq", "freq_align", "pol_type") if n in kw]
        if clsname in BASEBAND:
            names.append("chan_bw")
        for n in srng.permutation(names):
            setattr(sig, n, kw["sample_rate"] if (n == "chan_bw" and clsname in BASEBAND) else kw[n])
        return sig


def make_signal(rng, clsname, n, *, nchan=None, extra=None, dtype=None, rate=None, start="rand",
                dask=False, chunks=None, time_chunked=False, align=None, fc=None, chan_bw=None,
                pol=None, meta="rand", data_kind="normal", mem=None, data=None):
    """Build a signal of class ``clsname``; returns (signal, descriptor dict)."""
    cls = cls_of(clsname)
    if data is None:
        sshape = sample_shape_for(rng, clsname, nchan, extra)
        dtype = np.dtype(dtype if dtype is not None else default_dtype(rng, clsname))
        x = rand_data(rng, (n,) + sshape, dtype, data_kind)
    else:
        x = np.asarray(data)
        sshape = x.shape[1:]
        dtype = x.dtype
    memkind = "C"
    if mem is not None and not dask:
        x, memkind = layout(rng, x, mem if mem != "rand" else None)
    rate = rand_rate(rng) if rate is None else rate
    if isinstance(start, str) and start == "rand":
        start = rand_time(rng)
    kw = dict(sample_rate=rate, start_time=start)
    if isinstance(meta, str) and meta == "rand":
        meta = None if rng.random() < 0.5 else {"src": "gen", "k": int(rng.integers(1000)), "nest": {"a": [1, 2]}}
    kw["meta"] = meta
    if clsname != "Signal":
        srhz = float(rate.to_value(u.Hz))
        if clsname in BASEBAND:
            cbw = rate
        else:
            cbw = chan_bw if chan_bw is not None else rand_freq(rng, max(srhz, 1e-3), max(srhz * 10, 1.0))
            kw["chan_bw"] = cbw
        cbhz = float(cbw.to_value(u.Hz))
        nch = sshape[0]
        if fc is None:
            lo = max(cbhz * nch * 2.0, cbhz * 10)
            fc = rand_freq(rng, lo, max(lo * 1e4, lo * 10))
        kw["center_freq"] = fc
        kw["freq_align"] = align if align is not None else pick(rng, ["bottom", "center", "top"])
        if clsname == "DualPolarizationSignal":
            kw["pol_type"] = pol if pol is not None else pick(rng, ["linear", "circular"])
    xin = x
    if dask:
        ch = chunks if chunks is not None else rand_chunks(rng, x.shape, time_chunked)
        xin = da.from_array(x, chunks=ch)
    aged = AGING and _side_rng(rng).random() < 0.2
    try:
        if aged:
            sig = _aged(cls, clsname, xin, kw, _side_rng(rng))
        else:
            sig = cls(xin, **kw)
    except Exception as exc:
        from .core import ValidInputRefused
        shown = {k: (str(v) if k != "meta" else v) for k, v in kw.items()}
        raise ValidInputRefused("valid_signal", f"{clsname}(data {x.shape} {x.dtype}{' dask' if dask else ''}, {shown}){' built through setters' if aged else ''} "
                                                f"raised {type(exc).__name__}: {exc}", {"cls": clsname, "aged": bool(aged)})
    desc = {"cls": clsname, "aged": bool(aged), "shape": list(x.shape), "dtype": str(dtype), "rate": str(rate),
            "start": None if start is None else f"{start.scale}:{start.isot}",
            "dask": bool(dask), "mem": memkind}
    for k in ("center_freq", "chan_bw", "freq_align", "pol_type"):
        if k in kw:
            desc[k] = str(kw[k])
    if dask:
        desc["chunks"] = str(xin.chunks)
    return sig, desc


def np_data(sig):
    d = sig.data
    if isinstance(d, da.Array):
        return d.compute(scheduler="synchronous")
    return np.asarray(d)
