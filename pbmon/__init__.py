"""pbmon: runtime monitors for pulsarbat (see /verif/DESIGN.md)."""
