"""Probes: wrappers installed from outside on pulsarbat's public API.

A *monitor* is any object with

    pre(point, args, kwargs)  -> token
    post(point, args, kwargs, token, result, exc) -> None

Wrappers never change arguments, results or exceptions.  An exception raised by a monitor is a
harness error (recorded, verdict becomes inconclusive), never visible to the program under test.
While a monitor runs, probes are switched off for that thread, so monitors may freely use the
library (slicing, attribute access, ...) without observing themselves.
"""

import functools
import sys
import threading
import traceback

_tls = threading.local()
_points = {}
_errors = []
_lock = threading.Lock()


class Point:
    def __init__(self, owner, name, original, label):
        self.owner = owner
        self.name = name
        self.original = original
        self.label = label
        self.monitors = []
        self.calls = 0
        self.restore = []      # list of (obj, attr, old value)

    def __repr__(self):
        return f"<probe {self.label}>"


def in_monitor():
    return getattr(_tls, "depth", 0) > 0


class quiet:
    """Context manager: library calls made inside are not observed (used by monitors/oracles)."""

    def __enter__(self):
        _tls.depth = getattr(_tls, "depth", 0) + 1

    def __exit__(self, *a):
        _tls.depth -= 1


def monitor_errors():
    return list(_errors)


def _record_error(point, m, exc):
    with _lock:
        if len(_errors) < 20:
            _errors.append(f"{type(m).__name__} at {point.label}: {type(exc).__name__}: {exc}\n"
                           + "".join(traceback.format_exception(type(exc), exc, exc.__traceback__))[-1500:])


def _make_wrapper(point):
    original = point.original

    @functools.wraps(original)
    def wrapper(*args, **kwargs):
        if getattr(_tls, "depth", 0) > 0 or not point.monitors:
            return original(*args, **kwargs)
        point.calls += 1
        mons = list(point.monitors)
        toks = []
        _tls.depth = 1
        try:
            for m in mons:
                try:
                    toks.append(m.pre(point, args, kwargs))
                except Exception as exc:  # noqa
                    toks.append(None)
                    _record_error(point, m, exc)
        finally:
            _tls.depth = 0
        try:
            res = original(*args, **kwargs)
        except BaseException as exc:
            _tls.depth = 1
            try:
                for m, t in zip(mons, toks):
                    try:
                        m.post(point, args, kwargs, t, None, exc)
                    except Exception as e2:  # noqa
                        _record_error(point, m, e2)
            finally:
                _tls.depth = 0
            raise
        _tls.depth = 1
        try:
            for m, t in zip(mons, toks):
                try:
                    m.post(point, args, kwargs, t, res, None)
                except Exception as e2:  # noqa
                    _record_error(point, m, e2)
        finally:
            _tls.depth = 0
        return res

    wrapper.__pbmon_point__ = point
    return wrapper


def _pulsarbat_modules():
    return [m for n, m in list(sys.modules.items())
            if m is not None and (n == "pulsarbat" or n.startswith("pulsarbat."))]


def attach(owner, name, monitor, label=None):
    """Attach ``monitor`` to ``owner.name`` (module function, method, classmethod or staticmethod)."""
    key = (id(owner), name)
    point = _points.get(key)
    if point is None:
        raw = owner.__dict__[name] if isinstance(owner, type) else getattr(owner, name)
        label = label or f"{getattr(owner, '__name__', owner)}.{name}"
        if isinstance(raw, classmethod):
            point = Point(owner, name, raw.__func__, label)
            new = classmethod(_make_wrapper(point))
            point.restore.append((owner, name, raw))
            setattr(owner, name, new)
        elif isinstance(raw, staticmethod):
            point = Point(owner, name, raw.__func__, label)
            new = staticmethod(_make_wrapper(point))
            point.restore.append((owner, name, raw))
            setattr(owner, name, new)
        elif isinstance(raw, property):
            raise TypeError("use attach_setter for properties")
        else:
            point = Point(owner, name, raw, label)
            new = _make_wrapper(point)
            if isinstance(owner, type):
                point.restore.append((owner, name, raw))
                setattr(owner, name, new)
            else:
                # module-level function: patch every pulsarbat module that re-exports it
                for mod in _pulsarbat_modules():
                    for attr, val in list(vars(mod).items()):
                        if val is raw:
                            point.restore.append((mod, attr, raw))
                            setattr(mod, attr, new)
        _points[key] = point
    point.monitors.append(monitor)
    return point


def attach_setter(cls, name, monitor, label=None):
    key = (id(cls), name + ".setter")
    point = _points.get(key)
    if point is None:
        prop = cls.__dict__[name]
        point = Point(cls, name, prop.fset, label or f"{cls.__name__}.{name}.setter")
        new = property(prop.fget, _make_wrapper(point), prop.fdel, prop.__doc__)
        point.restore.append((cls, name, prop))
        setattr(cls, name, new)
        _points[key] = point
    point.monitors.append(monitor)
    return point


def attach_getter(cls, name, monitor, label=None):
    key = (id(cls), name + ".getter")
    point = _points.get(key)
    if point is None:
        prop = cls.__dict__[name]
        point = Point(cls, name, prop.fget, label or f"{cls.__name__}.{name}.getter")
        new = property(_make_wrapper(point), prop.fset, prop.fdel, prop.__doc__)
        point.restore.append((cls, name, prop))
        setattr(cls, name, new)
        _points[key] = point
    point.monitors.append(monitor)
    return point


def detach_all():
    for point in list(_points.values()):
        for obj, attr, old in reversed(point.restore):
            try:
                setattr(obj, attr, old)
            except Exception:
                pass
    _points.clear()


def call_counts():
    return {p.label: p.calls for p in _points.values()}
