#!/bin/sh
# tools/confirm_mutant.sh <dir with patch.diff + demo.py>   -> prints CONFIRMED / REJECTED <why>
D="$(readlink -f "$1")"
SCR="$(mktemp -d /tmp/pbconf.XXXXXX)"
trap 'rm -rf "$SCR"' EXIT INT TERM
rsync -a --exclude .git --exclude __pycache__ --exclude '*.egg-info' /repo/ "$SCR/repo/"
cd "$SCR/repo" || exit 3
git init -q . 2>/dev/null
PYTHONPATH="$SCR/repo" timeout 600 /venv/bin/python -W ignore "$D/demo.py" >"$SCR/demo0.log" 2>&1; R0=$?
git apply --whitespace=nowarn "$D/patch.diff" || { echo "REJECTED $D patch does not apply"; exit 1; }
PYTHONPATH="$SCR/repo" timeout 600 /venv/bin/python -W ignore "$D/demo.py" >"$SCR/demo1.log" 2>&1; R1=$?
PYTHONPATH="$SCR/repo" timeout 1500 /venv/bin/python -m pytest -q -p no:cacheprovider -n 6 --timeout=900 >"$SCR/tests.log" 2>&1
FAILED=$(grep -E "^(FAILED|ERROR)" "$SCR/tests.log" | grep -v "TestPredictor::test_basic" | wc -l)
SUMMARY=$(tail -1 "$SCR/tests.log")
if [ "$R0" = 0 ] && [ "$R1" != 0 ] && [ "$FAILED" = 0 ] && echo "$SUMMARY" | grep -q "passed"; then
  echo "CONFIRMED $D demo_clean=$R0 demo_mut=$R1 tests: $SUMMARY"
else
  echo "REJECTED $D demo_clean=$R0 demo_mut=$R1 other_failed=$FAILED tests: $SUMMARY"; tail -3 "$SCR/demo0.log"
fi
