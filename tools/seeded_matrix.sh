#!/bin/sh
# tools/seeded_matrix.sh [pattern]  : run every seeded change against the quick check of the property it breaks
HERE="$(cd "$(dirname "$0")/.." && pwd)"
for d in "$HERE"/seeded/${1:-*}; do
  [ -f "$d/patch.diff" ] || continue
  name=$(basename "$d"); id=${name%%-*}
  out=$("$HERE/tools/mutant.sh" "$d/patch.diff" "$id" 2>&1)
  verdict=$(echo "$out" | grep -E "^(HELD|VIOLATED|INCONCLUSIVE) " | tail -1 | cut -d' ' -f1)
  [ -z "$verdict" ] && verdict=$(echo "$out" | grep -E "PATCH-FAILED" | head -1)
  first=$(echo "$out" | grep -E "oracle=" | head -1 | cut -c1-200)
  echo "$name $verdict |$first"
done
