#!/bin/sh
# tools/mutant.sh <patch.diff> <ID> [extra check args...]
# Applies the patch to a scratch copy of /repo (outside /repo and /verif), runs ./check <ID> against it
# with evidence/replays redirected to the scratch dir, prints the result and removes the copy.
PATCH="$(readlink -f "$1")"; ID="$2"; shift 2
HERE="$(cd "$(dirname "$0")/.." && pwd)"
SCR="$(mktemp -d /tmp/pbmut.XXXXXX)"
trap 'rm -rf "$SCR"' EXIT INT TERM
rsync -a --exclude .git --exclude __pycache__ --exclude '*.egg-info' /repo/ "$SCR/repo/"
( cd "$SCR/repo" && git init -q . 2>/dev/null; git -C "$SCR/repo" apply --whitespace=nowarn "$PATCH" ) || { echo "PATCH-FAILED"; exit 3; }
mkdir -p "$SCR/ev"
VERIF_REPO="$SCR/repo" VERIF_EVIDENCE_DIR="$SCR/ev" VERIF_REPLAY_DIR="$SCR/ev" "$HERE/check" "$ID" "$@"
RC=$?
echo "mutant-exit=$RC"
exit $RC
