#!/usr/bin/env python3
"""Regenerates /verif/MANIFEST.json from the table below (keeps it schema-valid at all times)."""
import json
import os

HERE = os.path.dirname(os.path.dirname(os.path.abspath(__file__)))

BASELINE_OFF = ("cd /repo && env -u PULSARBAT_VERIF /venv/bin/python -m pytest -ra -q -p no:cacheprovider --timeout=900 "
                "--continue-on-collection-errors --junitxml=/tmp/pulsarbat-baseline-off.junit.xml")

TRUST = ("Trusted base: CPython 3.12, numpy/scipy/astropy/dask/baseband as installed; the monitors' own oracle code "
         "(fractions.Fraction arithmetic, the longdouble DFT matrix in pbmon/refdft.py); tolerances derived in DESIGN.md. "
         "Says nothing about inputs outside the stated strata or code paths the workload did not reach.")

CHECKS = {
    "C01": dict(
        technique="runtime monitoring: exact-rational time ledger as postcondition on every __getitem__ / cropping transform, "
                  "offline lineage check over recorded pipelines, contains() oracle",
        text="Exploration: every slicing/cropping call made by stratified seeded workloads (and the internal calls of the transforms) "
             "is judged online by a Fraction ledger of (start time, rate, length); pipelines are re-checked offline root-to-leaf on coded "
             "data. Right level because the property is a safety property over inputs and op sequences with a cheap exact oracle.",
        ref="DESIGN.md section 2 C01"),
    "C02": dict(
        technique="runtime monitoring: band-model oracle (exact Fractions) hooked on every radio-signal construction and every "
                  "frequency/Stokes/trailing-axis selection",
        text="Exploration: every completed RadioSignal construction and every selection event observed in the workloads is compared "
             "with the documented label formula in exact rational arithmetic; nested selections are re-checked end to end.",
        ref="DESIGN.md section 2 C02"),
    "C03": dict(
        technique="runtime monitoring: postcondition monitor on every time_shift call comparing each element with an independent "
                  "(longdouble DFT-matrix / numpy.fft complex128) shift-theorem reference in l2 norm, plus exact-zero check of the "
                  "out-of-range region",
        text="Exploration: every time_shift execution in a stratified workload over lengths, dtypes, sample shapes, shift values and "
             "every broadcastable shift-array shape (NumPy and Dask) is judged per element against an independent DFT oracle with a "
             "tolerance derived from the documented complex64 phase ramp; crop=True is checked to be the crop=False result with the "
             "edge samples removed.",
        ref="DESIGN.md section 2 C03"),
    "C04": dict(
        technique="runtime monitoring: postcondition monitor on every freq_shift call; per-element reference spectrum (moved, wrapped "
                  "bins zeroed) from an independent DFT; l2 error of output and direct check of the output's DFT in the zeroed bins",
        text="Exploration: every freq_shift execution in a stratified workload (lengths, channel/polarisation shapes, complex widths, "
             "scalar and broadcast shifts of either sign, whole/fractional bins, beyond the bandwidth; NumPy and Dask) is judged per "
             "element against an independent complex128/longdouble oracle; type/dtype/labels/times must be unchanged.",
        ref="DESIGN.md section 2 C04"),
    "C05": dict(
        technique="runtime monitoring: postcondition monitors on chirp_function / chirp_from_signal (phase law evaluated in longdouble "
                  "from exact differences, cross-checked with Fractions) and on coherent_dedispersion (independent DFT reference, "
                  "exact-rational crop bounds and start time)",
        text="Exploration: every chirp and every coherent dedispersion produced by a stratified workload over DM (both signs, several "
             "units), band, reference frequency, length (odd, prime powers), channel layout, width and backend is judged against the "
             "analytic cold-plasma transfer function and IDFT(DFT(x) H)[start:stop]; supplied chirps and DM/-DM round trips included.",
        ref="DESIGN.md section 2 C05"),
    "C06": dict(
        technique="runtime monitoring: postcondition monitor on time_delay/sample_delay (exact rational f^-2 law) and source-tracing "
                  "monitor on incoherent_dedispersion using inputs whose samples encode (time index, channel)",
        text="Exploration: every delay evaluation (also those made internally by the dedispersion routines) is compared with the exact "
             "law; every output sample of incoherent dedispersion is decoded to its source index and compared with the exact rounded "
             "delay at the channel label and the output start time.",
        ref="DESIGN.md section 2 C06"),
    "C12": dict(
        technique="runtime monitoring: postcondition monitor on every snippet call (length, exact-rational start time, bitwise slice "
                  "equality for whole-sample t, independent DFT interpolation reference otherwise) plus refusal oracle",
        text="Exploration: snippet requests in all three forms of t over stratified signals, offsets (integers, halves, eps, deep small "
             "fractions) and lengths incl. n=0 and n=len, and out-of-range / invalid requests, each judged online.",
        ref="DESIGN.md section 2 C12"),
    "C16": dict(
        technique="runtime monitoring: class-invariant hook on every construction and every operation result, refusal oracle on "
                  "hostile arguments, attribute-equality oracle on copies, sys.monitoring failpoints inside constructors",
        text="Exploration plus crash-point enumeration of the constructor executions driven: one invariant checker sees every signal "
             "object built or returned during a mixed-operation workload; invalid constructions/assignments must raise ValueError and "
             "leave no/unchanged objects; copies must reproduce all attributes.",
        ref="DESIGN.md section 2 C16"),
}

CHECKS.update({
    "C18": dict(
        technique="runtime monitoring: postcondition on every next_fast_len/prev_fast_len call against an independently enumerated "
                  "table of all 7-smooth integers < 2^64; exhaustive sweep of a stated finite range plus neighbourhoods of smooth numbers",
        text="Exploration (exhaustive on the stated finite range 0..2^17 quick / 0..2^22 thorough, sampled around 7-smooth numbers up to "
             "2^62): each call's result is compared with the nearest 7-smooth neighbour from an independent table, with cold and warm "
             "lru_cache; fast_len is checked to crop from the end to exactly that length with data and timestamps untouched.",
        ref="DESIGN.md section 2 C18"),
    "C19": dict(
        technique="runtime monitoring: postcondition on every real_to_complex call: per-lane comparison with a direct longdouble DFT "
                  "evaluation of the definition, real-part identity, tone mapping, linearity, dtype/shape rules, refusal of complex input",
        text="Exploration: every call in a workload over lengths 0..65 (every parity), large and prime-ish lengths up to 131073, ranks "
             "1-4, every axis, eight real dtypes and several input families is judged lane by lane against the definition.",
        ref="DESIGN.md section 2 C19"),
    "C20": dict(
        technique="runtime monitoring: differential oracle for the 14 pb.fft names (numpy.fft double precision, explicit DFT matrix, "
                  "scipy.fft for shape/dtype and bitwise identity) on NumPy and on Dask arrays built from counting sentinel chunks; "
                  "tone-location oracle for STFT labels and round-trip oracle for ISTFT",
        text="Exploration: each transform name is driven over ranks, dtypes, axis/axes, n/s and norm arguments on both backends; lazy "
             "results must announce the reference shape/dtype, execute no input task before compute and equal the reference after; "
             "STFT sub-channel labels are checked with tones of known absolute frequency for all alignments/parities; ISTFT(STFT) "
             "must restore data, rate, start time and labels.",
        ref="DESIGN.md section 2 C20"),
})

CHECKS.update({
    "C13": dict(
        technique="runtime monitoring: postcondition monitors on to_linear/to_circular/to_stokes/to_intensity against an independent "
                  "complex128 evaluation of the documented 2x2 unitary and Stokes formulas; trace checks for round trips, basis "
                  "independence and component access across in-place modification",
        text="Exploration: every conversion call in a workload of generic complex samples (12 decades, zeros, purely real/imaginary), "
             "both bases, both widths, trailing dimensions and both backends is compared sample by sample with the formulas.",
        ref="DESIGN.md section 2 C13"),
})

CHECKS.update({
    "C17": dict(
        technique="runtime monitoring: monitor on every Signal.__array_ufunc__ call recomputing the ufunc independently from snapshots of "
                  "the unwrapped operands (bitwise comparison), checking wrapper class/metadata, out= identity and refusal paths; "
                  "array-conversion oracle",
        text="Exploration: all elementwise numpy ufuncs (nin<=2, nout<=2) x nine operand arrangements x six classes x both backends x "
             "out=/in-place forms are driven; every dispatch into Signal.__array_ufunc__ is judged online; reduce/accumulate/outer/at/"
             "reduceat/matmul must raise TypeError; np.asarray/np.array with dtype/copy must equal the same call on the data.",
        ref="DESIGN.md section 2 C17"),
})

CHECKS.update({
    "C10": dict(
        technique="runtime monitoring: round-trip oracle (split by direct slicing, concatenate, compare data bitwise and metadata in exact "
                  "rational arithmetic), associativity oracle over random groupings, refusal oracle over perturbed sequences",
        text="Exploration: split/concatenate histories over all classes, both axes (and trailing axes), cut patterns incl. empty pieces, "
             "patterns of missing start times and groupings; 22 kinds of perturbation by at least one sample/channel (incl. deep "
             "discontinuities and sub-1e-5 rate drifts on long Dask-backed pieces) must be refused with the documented exception type.",
        ref="DESIGN.md section 2 C10"),
})

CHECKS.update({
    "C14": dict(
        category="fault_enumeration",
        technique="runtime monitoring: byte-exact snapshot monitor on 35 public probe points (entry/exit, normal and exceptional), history "
                  "check on shared root signals, and sys.monitoring failpoints enumerating every statement boundary inside each operation",
        text="Exploration of call histories plus exhaustive crash-point enumeration of the executions driven (every statement boundary "
             "of pulsarbat code inside the selected calls, capped at 400 per call): every argument (signal buffer through its strides, "
             "all metadata, arrays, Quantities, Times, lists) is compared bit for bit with a snapshot taken at entry, whether the "
             "call returns, raises by itself or is crashed by an injected fault.",
        ref="DESIGN.md section 2 C14"),
})

CHECKS.update({
    "C07": dict(
        technique="runtime monitoring: monitors on Phase.__new__ and Phase.__array_ufunc__ (the protocol boundary every ufunc with a "
                  "Phase operand crosses) comparing each result elementwise with exact rational arithmetic (fractions.Fraction of the "
                  "two-double parts) on the operands",
        text="Exploration: every construction and every add/subtract/negative/positive/absolute/multiply/divide/floor_divide/remainder/"
             "divmod dispatch observed in a workload stratified over count decades up to 2^52, fraction kinds, twelve operand kinds, "
             "both operand orders and real/imaginary phases is checked for value (2^-52 cycles), normalisation, result type (never a "
             "one-double Angle) and the imaginary flag; trig/exp depend only on the fractional part.",
        ref="DESIGN.md section 2 C07"),
})

CHECKS.update({
    "C15": dict(
        technique="runtime monitoring: monitors on the comparison branch of Phase.__array_ufunc__, on min/max/argmin/argmax/sort/argsort/"
                  "ptp and on to_string/__format__/from_string, each judged against exact Fractions (ordering, extremum, permutation, "
                  "decimal value and digit count)",
        text="Exploration: arrays with ties and sub-double-resolution near-ties at counts up to 2^52 (every axis), comparisons with "
             "Phases/numbers/Quantities, decimal strings in every accepted spelling (sign, no/leading/trailing point, zero parts, E/D "
             "exponents, j) and renderings at precisions 0-18 / fixed-point format specs, incl. from_string(to_string(p)) round trips.",
        ref="DESIGN.md section 2 C15"),
})

CHECKS.update({
    "C08": dict(
        technique="runtime monitoring: monitors on PhasePredictor.__call__/f0/phasepol/time_at/intervals compare every call with the "
                  "tempo formula evaluated in fractions.Fraction on the decimal strings of the generated polyco text and the exact "
                  "two-double time difference",
        text="Exploration: polyco files written by the workload (entry counts, coefficient counts incl. 1 and non-multiples of 3, D/E "
             "exponents, spans, F0, RPHASE up to 1e12, overlapping/touching/gapped entries, subsets) and the repository's data file; "
             "scalar/array times at centres, edges, gaps and outside in UTC/TAI/TT; call sequences (phasepol then evaluate again).",
        ref="DESIGN.md section 2 C08"),
})

CHECKS.update({
    "C11": dict(
        technique="runtime monitoring: reference-model oracle (baseband stream transformed by the specification) on every read; offline "
                  "history checker (one digest per (reader, offset, n) key) over sequential, multi-threaded (seeded sleep(0) yield "
                  "injection via sys.monitoring) and Dask-scheduled histories; sys.addaudithook on file opens; reader-state and fd "
                  "snapshots; failpoints inside read",
        text="Exploration of inputs, histories and schedules plus crash-point enumeration of read(): 17 reader configurations over 8 "
             "file sets (sample files and files written by the check: VDIF real/complex, multi-file DADA, DADA Stokes USB/LSB, "
             "multi-file GUPPI USB/LSB) are read at frame/file-boundary offsets, eagerly and lazily, sequentially, from 2-32 threads and "
             "through Dask schedulers; every result is compared with the independent model and every key must keep one digest.",
        ref="DESIGN.md section 2 C11"),
})

CHECKS.update({
    "C09": dict(
        technique="runtime monitoring: differential oracle NumPy-backed vs sentinel-Dask-backed runs of ~35 operations; the sentinel's "
                  "chunk loads append to an O_APPEND event log (task counter across threads and processes) read before/after graph "
                  "construction; computes under synchronous / threaded (with sys.monitoring sleep(0) yield injection) / multiprocess "
                  "schedulers",
        text="Exploration over operations x classes x random chunk layouts (sample axes and time axis) x schedulers: no input task may "
             "run while the result graph is built, results stay Dask-backed, class/metadata/shape/dtype equal the NumPy run, values "
             "equal bitwise (norm-relative tolerance for FFT-based ops) and identically across schedulers; reader dask_read incl. two "
             "readers in one graph. Evidence lists the distinct chunk-load orders observed under the threaded scheduler.",
        ref="DESIGN.md section 2 C09"),
})

NOT_YET = {}


def main():
    props = [json.loads(l) for l in open(os.path.join(HERE, "properties.jsonl"))]
    ids = [p["id"] for p in props]
    checks = []
    for pid in ids:
        if pid not in CHECKS:
            continue
        c = CHECKS[pid]
        checks.append({
            "property_id": pid,
            "quick_cmd": f"./check {pid} --tier quick",
            "thorough_cmd": f"./check {pid} --tier thorough",
            "evidence_file": f"/verif/evidence/{pid}.json",
            "replay_cmd_template": f"./check {pid} --replay {{path}}",
            "engine": "pbmon",
            "level_claimed": {"category": c.get("category", "exploration"), "text": c["text"], "design_ref": c["ref"]},
            "level_note": c.get("note", TRUST),
            "technique": c["technique"],
        })
    na = []
    for pid in ids:
        if pid not in CHECKS:
            na.append({"property_id": pid, "reason": NOT_YET.get(
                pid, "check not built yet in this session (runtime monitoring applies; see DESIGN.md section 2) - not claimed until it is")})
    man = {
        "version": 1,
        "setup_cmd": "/venv/bin/python -c \"import sys; sys.path.insert(0, '/verif'); import numpy, scipy, astropy, dask, baseband, cloudpickle; "
                     "import pbmon.core, pbmon.runner; print('pbmon ready')\"",
        "hooks": {
            "guard": "PULSARBAT_VERIF",
            "enable": "no source hook exists: all probes are installed from outside at run time by ./check (which sets PULSARBAT_VERIF=1 "
                      "for its own processes only); /repo is imported from its working tree via VERIF_REPO (default /repo)",
            "baseline_off_cmd": BASELINE_OFF,
            "source_commits": [],
            "add_only": True,
        },
        "engines": [{
            "name": "pbmon",
            "path": "/verif/pbmon",
            "serves_properties": [c["property_id"] for c in checks],
            "kind_free_text": "runtime monitors: API-boundary probes + reference-model oracles + sys.monitoring failpoints/yield injection, "
                              "driven by stratified seeded workloads in worker subprocesses",
        }],
        "checks": checks,
        "not_applicable": na,
        "notes": "Exit codes: 0 held on everything explored, 1 violated (VIOLATION line + replay file), 2 inconclusive (a deciding monitor "
                 "was not reached / watchdog). Known findings are listed in /verif/known_findings.json. VERIF_SEED selects the seed, "
                 "VERIF_JOBS the number of worker processes.",
    }
    with open(os.path.join(HERE, "MANIFEST.json"), "w") as fh:
        json.dump(man, fh, indent=1)
    print("MANIFEST.json written:", len(checks), "checks,", len(na), "not_applicable")


if __name__ == "__main__":
    main()
