#!/bin/sh
# tools/sweep.sh "<ids>" "<seeds>" [tier]  : runs checks with evidence redirected to a scratch dir; prints one line per run
IDS="$1"; SEEDS="$2"; TIER="${3:-quick}"
HERE="$(cd "$(dirname "$0")/.." && pwd)"
SCR="$(mktemp -d /tmp/pbsweep.XXXXXX)"
trap 'rm -rf "$SCR"' EXIT INT TERM
for id in $IDS; do for s in $SEEDS; do
  OUT=$(VERIF_SEED=$s VERIF_EVIDENCE_DIR="$SCR" VERIF_REPLAY_DIR="$SCR" "$HERE/check" $id --tier $TIER 2>&1)
  echo "$OUT" | tail -1
  echo "$OUT" | grep -E "oracle=|INCONCLUSIVE property=.*reason" | head -3
done; done
